"""Family `pgm`: include/pgm/pgm_index.hpp -- PGMIndex, Segment."""
from unit import Family, ClassDesc, FuncDesc
from emit import FuncInfo

HPP = 'include/pgm/pgm_index.hpp'

FAMILY = Family(
    'pgm',
    typemap={'K': 'K', 'Floating': 'Floating', 'Segment': 'Segment', 'ApproxPos': 'ApproxPos'},
    classes=[
        ClassDesc('Segment', HPP, 'Segment', ordinal=0, packed=True),
        ClassDesc('PGMIndex', HPP, 'PGMIndex', methods={
            'segment_for_key': 'PGMIndex_segment_for_key', 'height': 'PGMIndex_height',
            'segments_count': 'PGMIndex_segments_count', 'search': 'PGMIndex_search'}),
    ],
    extra_structs={'ApproxPos': {'pos': 'size_t', 'lo': 'size_t', 'hi': 'size_t'}},
    callops={'Segment': FuncInfo('Segment_call', 'size_t')},
    conv={'Segment': 'key'},
    funcs={'PGM_SUB_EPS': FuncInfo('PGM_SUB_EPS', 'size_t'), 'PGM_ADD_EPS': FuncInfo('PGM_ADD_EPS', 'size_t')},
    typenames={'K', 'Floating', 'Segment', 'ApproxPos', 'RandomIt'},
)

TEMPLATE_CONSTS = {'Epsilon': ('Epsilon', 'size_t'), 'EpsilonRecursive': ('EpsilonRecursive', 'size_t')}

FUNCS = {}


def F(*a, **kw):
    kw.setdefault('consts', {})
    c = dict(TEMPLATE_CONSTS)
    c.update(kw['consts'])
    kw['consts'] = c
    fd = FuncDesc(*a, **kw)
    FUNCS[fd.key] = fd
    return fd


F('PGMIndex_search', HPP, 'search', 'ApproxPos PGMIndex_search(const PGMIndex *self, K key)', cls='PGMIndex', ret='ApproxPos',
  params={'key': 'K'}, must_fire=('std_minmax', 'call_operator', 'return_brace', 'member_field', 'method_call', 'iter_arrow'))
F('PGMIndex_segment_for_key', HPP, 'segment_for_key', 'size_t PGMIndex_segment_for_key(const PGMIndex *self, K key)', cls='PGMIndex',
  ret='It<Segment>', ret_base='self->segments.data', params={'key': 'K'},
  must_fire=('if_constexpr', 'std_upper_bound', 'std_prev', 'std_next', 'call_operator', 'iter_local', 'iter_arrow'))
F('PGMIndex_height', HPP, 'height', 'size_t PGMIndex_height(const PGMIndex *self)', cls='PGMIndex', ret='size_t')
F('PGMIndex_segments_count', HPP, 'segments_count', 'size_t PGMIndex_segments_count(const PGMIndex *self)', cls='PGMIndex', ret='size_t')
F('Segment_call', HPP, 'operator()', 'size_t Segment_call(const Segment *self, K k)', cls='Segment', ret='size_t', params={'k': 'K'},
  must_fire=('if_constexpr', 'type_trait', 'float_to_int'), typemap={'std::make_unsigned_t<K>': 'K_unsigned'})

MACROS = [(HPP, 'PGM_SUB_EPS'), (HPP, 'PGM_ADD_EPS')]

PRELUDE = 'PGMV_DEF_MINMAX(K)\n'
APPROXPOS = 'typedef struct { size_t pos; size_t lo; size_t hi; } ApproxPos;\n'
LAYOUT = ['struct:Segment', 'vec:Segment', 'vec:size_t', 'text:APPROXPOS', 'struct:PGMIndex']
