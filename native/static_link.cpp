// Bounded native link for the search contract (C01/C02 and its variants C08/C09/C10): the REAL index classes against
// std::lower_bound on enumerated and random inputs.  Select the class family with -DLINK_PGM / -DLINK_COMPRESSED /
// -DLINK_BUCKETING / -DLINK_EF.   usage: static_link <quick|thorough>
#include <omp.h>
#include <sys/wait.h>
#include <unistd.h>
#include <fstream>
#include "common.hpp"
#include "pgm/pgm_index.hpp"
#include "pgm/pgm_index_variants.hpp"

static vl::Report R;
static std::string g_trace;

// Run one configuration in a child process: a crash (memory error) becomes a reported violation instead of killing the link.
template<typename F> static void isolated(const std::string &cfg, F f) {
    fflush(stdout);
    int fd[2];
    if (pipe(fd) != 0) { f(); return; }
    pid_t pid = fork();
    if (pid == 0) {
        close(fd[0]);
        R.cases = R.distinct = R.violations = 0;
        f();
        fflush(stdout);
        long out[3] = {R.cases, R.distinct, R.violations};
        if (write(fd[1], out, sizeof(out)) < 0) _exit(3);
        _exit(0);
    }
    close(fd[1]);
    long in[3] = {0, 0, 0};
    ssize_t got = read(fd[0], in, sizeof(in));
    close(fd[0]);
    int st = 0;
    waitpid(pid, &st, 0);
    if (got == (ssize_t) sizeof(in)) { R.cases += in[0]; R.distinct += in[1]; R.violations += in[2]; }
    if (WIFSIGNALED(st)) {
        std::ifstream t(g_trace);
        std::string l1, l2, last, l;
        std::getline(t, l1); std::getline(t, l2);
        while (std::getline(t, l)) last = l;
        if (l2.size() > 600) l2 = l2.substr(0, 600) + " ...";
        R.violation(std::string(cfg.find("wide-span probe") != std::string::npos ? "[ef-wide-span] " : "") + cfg + ": crashed with signal " + std::to_string(WTERMSIG(st)) + " (memory error, C17) during " + (last.empty() ? "construction" : last),
                    "{\"config\": \"" + cfg + "\", \"data\": \"" + l2 + "\"}");
    }
}

// classification of failure shapes that are recorded as known findings (see /verif/known_findings.json); the tag is part of the
// violation text so that any OTHER failure of the same configuration is still reported as a new violation
template<typename K> static std::string shape_tag(const std::string &cfg, const std::vector<K> &data, K q, bool ctor) {
    if constexpr (std::is_floating_point_v<K>) {
        for (size_t i = 1; i < data.size(); ++i) if (data[i] == 0 && data[i - 1] == 0) return "[float-zero-run] ";
    } else {
        if (cfg.rfind("Compressed", 0) == 0 && ctor) return "[compressed-ctor-closing-segment] ";
        if (cfg.rfind("Compressed", 0) == 0 && sizeof(K) == 8 && !data.empty() && uint64_t(data.back()) >= (uint64_t(1) << 63)) return "[compressed-u64-high-half] ";
    }
    if (cfg.find("seam-shape=4") != std::string::npos) return "[par-final-run] ";
    return "";
}
template<typename K> static bool skip_input(const std::string &cfg, const std::vector<K> &data) {
    if constexpr (!std::is_floating_point_v<K>) {
        using U = std::make_unsigned_t<K>;
        // EliasFanoPGMIndex: the sdsl sd_vector constructor crashes when (last - first) needs all bits of the key type (known finding, probed separately)
        if (cfg.rfind("EliasFano", 0) == 0 && !data.empty() && U(U(data.back()) - U(data.front())) >= (U(1) << (sizeof(K) * 8 - 1))) return true;
    }
    return false;
}

template<typename Index, typename K>
static bool check_index(const std::vector<K> &data, const std::vector<K> &queries, size_t eps, const std::string &cfg) {
    if (skip_input<K>(cfg, data) && cfg.find("probe") == std::string::npos) return true;
    if (const char *tf = g_trace.c_str(); *tf) { FILE *f = fopen(tf, "w"); fprintf(f, "%s\n", cfg.c_str()); for (auto k : data) fprintf(f, "%s ", vl::num(k).c_str()); fprintf(f, "\n"); fclose(f); }
    Index *pidx = nullptr;
    try { pidx = new Index(data.begin(), data.end()); }
    catch (const std::exception &e) {
        if (R.seen.insert(cfg + "|ctor").second) R.violation(shape_tag<K>(cfg, data, K(0), true) + cfg + ": constructor threw on valid input: " + e.what(), "{\"config\": \"" + cfg + "\", \"n\": " + std::to_string(data.size()) + ", \"data\": " + vl::arr(data) + "}");
        if (getenv("VL_DUMP")) { FILE *f = fopen(getenv("VL_DUMP"), "a"); fprintf(f, "%s\nctor\n", cfg.c_str()); for (auto k : data) fprintf(f, "%s ", vl::num(k).c_str()); fprintf(f, "\n"); fclose(f); }
        return true;
    }
    Index &idx = *pidx;
    struct Del { Index *p; ~Del() { delete p; } } del{pidx};
    bool ok = true;
    for (K q : queries) {
        ++R.cases;
        if (const char *tf = g_trace.c_str(); *tf) { FILE *f = fopen(tf, "a"); fprintf(f, "query %s\n", vl::num(q).c_str()); fclose(f); }
        auto r = idx.search(q);
        size_t lb = std::lower_bound(data.begin(), data.end(), q) - data.begin();
        bool present = lb < data.size() && data[lb] == q;
        std::string bad;
        if (!(r.lo <= r.hi && r.hi <= data.size())) bad = "range not inside [0,n]";
        else if (r.hi - r.lo > 2 * eps + 2) bad = "range wider than 2*eps+2";
        else if (!(r.lo <= lb && lb <= r.hi)) bad = "lower bound outside [lo,hi] (C02)";
        else if (present && !(lb < r.hi)) bad = "first occurrence of a present key not inside [lo,hi) (C01)";
        if (!bad.empty() && R.seen.insert(shape_tag<K>(cfg, data, q, false) + cfg + "|" + bad).second) {
            R.violation(shape_tag<K>(cfg, data, q, false) + cfg + ": " + bad + ": query " + vl::num(q) + " -> [" + std::to_string(r.lo) + "," + std::to_string(r.hi) + "), lower_bound " + std::to_string(lb) + ", n " + std::to_string(data.size()),
                        "{\"config\": \"" + cfg + "\", \"query\": \"" + vl::num(q) + "\", \"n\": " + std::to_string(data.size()) + ", \"data\": " + vl::arr(data) + "}");
            if (getenv("VL_DUMP")) { FILE *f = fopen(getenv("VL_DUMP"), "a"); fprintf(f, "%s\nquery %s\n", cfg.c_str(), vl::num(q).c_str()); for (auto k : data) fprintf(f, "%s ", vl::num(k).c_str()); fprintf(f, "\n"); fclose(f); }
            ok = false;
        }
        if (!bad.empty()) ok = false;
    }
    return true;   /* keep exploring: every distinct failure shape of a configuration is reported once */
}

template<typename Index, typename K>
static void enumerate_small(size_t eps, const std::string &cfg, size_t maxlen) {
    for (auto &alpha : vl::alphabets<K>()) {
        std::vector<K> qs = alpha;
        for (K a : alpha) { qs.push_back(vl::succ(a)); qs.push_back(vl::pred(a)); }
        qs.push_back(std::numeric_limits<K>::lowest());
        qs.push_back(vl::pred(vl::reserved<K>()));
        std::vector<K> q2;
        for (K k : qs) if (k != vl::reserved<K>()) q2.push_back(k);
        bool stop = false;
        for (size_t len = 1; len <= maxlen && !stop; ++len)
            vl::for_sorted_sequences<K>(alpha, len, [&](const std::vector<K> &d) {
                if (stop) return;
                ++R.distinct;
                if (!check_index<Index, K>(d, q2, eps, cfg)) stop = true;
            });
    }
}

template<typename Index, typename K>
static void random_arrays(size_t eps, const std::string &cfg, int rounds, size_t nmax, uint64_t seed) {
    std::mt19937_64 rng(seed);
    for (int r = 0; r < rounds; ++r) {
        size_t n = 1 + rng() % nmax;
        auto d = vl::random_sorted<K>(rng, n, r % 5);
        if (d.empty()) continue;
        ++R.distinct;
        if (r < 2) R.sample("{\"config\": \"" + cfg + "\", \"n\": " + std::to_string(d.size()) + ", \"data\": " + vl::arr(d, 12) + "}");
        if (!check_index<Index, K>(d, vl::queries_for(d), eps, cfg)) return;
    }
}

// chunked construction: n >= 2^15, duplicate runs placed at / across the chunk boundaries of a `threads`-way split
template<typename Index, typename K>
static void seams(size_t eps, const std::string &cfg, int threads, uint64_t seed) {
    std::mt19937_64 rng(seed);
    omp_set_num_threads(threads);
    int par = std::min(std::min(omp_get_num_procs(), omp_get_max_threads()), 20);
    for (int shape = 0; shape < 5; ++shape) {
        size_t n = (size_t(1) << 15) + (shape == 3 ? 1237 : 0);
        size_t chunk = n / par;
        std::vector<K> d(n);
        using U = std::make_unsigned_t<std::conditional_t<std::is_floating_point_v<K>, int64_t, K>>;
        // strictly increasing base with gaps of 3, then runs of equal keys around every chunk boundary
        for (size_t i = 0; i < n; ++i) d[i] = K(std::numeric_limits<K>::lowest() / 2 + K(3 * i));
        if (shape == 4) { for (size_t i = n - chunk - 7; i < n; ++i) d[i] = d[n - chunk - 7]; }
        for (int c = 1; c < par && shape != 4; ++c) {
            size_t b = c * chunk;
            size_t from = shape == 0 ? b - 50 : shape == 1 ? b - 1 : b - 20;
            size_t to = shape == 0 ? b : shape == 1 ? b + 40 : b + 20;      // run = [from, to)
            if (shape == 3) { from = b - 1 - rng() % 30; to = b + rng() % 30; }
            for (size_t i = from; i < to && i < n; ++i) d[i] = d[from];
        }
        ++R.distinct;
        std::vector<K> qs;
        for (int c = 1; c < par; ++c)
            for (size_t i = c * chunk - 60; i < c * chunk + 60 && i < n; ++i) { qs.push_back(d[i]); qs.push_back(vl::succ(d[i])); qs.push_back(vl::pred(d[i])); }
        qs.push_back(vl::succ(d.back())); qs.push_back(d.back());
        std::sort(qs.begin(), qs.end());
        qs.erase(std::unique(qs.begin(), qs.end()), qs.end());
        if (!check_index<Index, K>(d, qs, eps, cfg + " threads=" + std::to_string(threads) + " seam-shape=" + std::to_string(shape))) return;
    }
    omp_set_num_threads(1);
}

#define PGMCFG(K, E, ER, F) pgm::PGMIndex<K, E, ER, F>, K
#define STR2(x) #x
#define STR(x) STR2(x)
#define RUN_ALL(E, name, ...) do { \
    isolated(name, [&] { enumerate_small<__VA_ARGS__>(E, name, maxlen); }); \
    isolated(name, [&] { random_arrays<__VA_ARGS__>(E, name, rounds, 3000, seed + __LINE__); }); } while (0)

int main(int argc, char **argv) {
    std::string tier = argc > 1 ? argv[1] : "quick";
    uint64_t seed = vl::seed_from_env();
    g_trace = "/tmp/pgmv_static_trace." + std::to_string(getpid());
    size_t maxlen = tier == "thorough" ? 7 : 5;
    int rounds = tier == "thorough" ? 120 : 25;
    omp_set_num_threads(1);
#ifdef LINK_PGM
    RUN_ALL(1, "PGMIndex<uint64_t,1,0,float>", PGMCFG(uint64_t, 1, 0, float));
    RUN_ALL(2, "PGMIndex<uint64_t,2,1,float>", PGMCFG(uint64_t, 2, 1, float));
    RUN_ALL(1, "PGMIndex<uint64_t,1,2,double>", PGMCFG(uint64_t, 1, 2, double));
    RUN_ALL(1, "PGMIndex<int64_t,1,1,float>", PGMCFG(int64_t, 1, 1, float));
    RUN_ALL(2, "PGMIndex<int64_t,2,0,double>", PGMCFG(int64_t, 2, 0, double));
    RUN_ALL(1, "PGMIndex<uint32_t,1,1,float>", PGMCFG(uint32_t, 1, 1, float));
    RUN_ALL(2, "PGMIndex<int32_t,2,2,float>", PGMCFG(int32_t, 2, 2, float));
    RUN_ALL(1, "PGMIndex<uint16_t,1,0,float>", PGMCFG(uint16_t, 1, 0, float));
    RUN_ALL(1, "PGMIndex<int16_t,1,1,float>", PGMCFG(int16_t, 1, 1, float));
    RUN_ALL(1, "PGMIndex<uint8_t,1,1,float>", PGMCFG(uint8_t, 1, 1, float));
    RUN_ALL(2, "PGMIndex<int8_t,2,0,float>", PGMCFG(int8_t, 2, 0, float));
    RUN_ALL(4, "PGMIndex<uint64_t,4,64,float> (binary-search routing)", PGMCFG(uint64_t, 4, 64, float));
    RUN_ALL(2, "PGMIndex<double,2,0,float>", PGMCFG(double, 2, 0, float));
    RUN_ALL(2, "PGMIndex<double,2,1,double>", PGMCFG(double, 2, 1, double));
    RUN_ALL(4, "PGMIndex<float,4,2,float>", PGMCFG(float, 4, 2, float));
    for (int th : {16, 5})
    {
        isolated("seams", [&] { seams<PGMCFG(uint64_t, 4, 4, float)>(4, "PGMIndex<uint64_t,4,4,float>", th, seed); });
        isolated("seams", [&] { seams<PGMCFG(int64_t, 8, 0, double)>(8, "PGMIndex<int64_t,8,0,double>", th, seed + 1); });
        isolated("seams", [&] { seams<PGMCFG(uint32_t, 16, 4, float)>(16, "PGMIndex<uint32_t,16,4,float>", th, seed + 2); });
    }
#endif
#ifdef LINK_COMPRESSED
#define CMP(K, E, ER) pgm::CompressedPGMIndex<K, E, ER>, K
    RUN_ALL(1, "CompressedPGMIndex<uint64_t,1,1>", CMP(uint64_t, 1, 1));
    RUN_ALL(2, "CompressedPGMIndex<uint64_t,2,0>", CMP(uint64_t, 2, 0));
    RUN_ALL(1, "CompressedPGMIndex<uint32_t,1,4>", CMP(uint32_t, 1, 4));
    RUN_ALL(2, "CompressedPGMIndex<uint32_t,2,256> (binary-search routing)", CMP(uint32_t, 2, 256));
    RUN_ALL(1, "CompressedPGMIndex<uint16_t,1,1>", CMP(uint16_t, 1, 1));
    RUN_ALL(1, "CompressedPGMIndex<uint8_t,1,0>", CMP(uint8_t, 1, 0));
    RUN_ALL(4, "CompressedPGMIndex<uint64_t,4,256> (binary-search routing)", CMP(uint64_t, 4, 256));
#endif
#ifdef LINK_BUCKETING
#define BKT(K, E, TS, TB) pgm::BucketingPGMIndex<K, E, TS, TB>, K
    RUN_ALL(1, "BucketingPGMIndex<uint64_t,1,4,32>", BKT(uint64_t, 1, 4, 32));
    RUN_ALL(2, "BucketingPGMIndex<uint64_t,2,100,32>", BKT(uint64_t, 2, 100, 32));
    RUN_ALL(1, "BucketingPGMIndex<uint32_t,1,128,0>", BKT(uint32_t, 1, 128, 0));
    RUN_ALL(2, "BucketingPGMIndex<uint32_t,2,550,16>", BKT(uint32_t, 2, 550, 16));
    RUN_ALL(1, "BucketingPGMIndex<uint16_t,1,7,0>", BKT(uint16_t, 1, 7, 0));
    RUN_ALL(1, "BucketingPGMIndex<uint8_t,1,2,8>", BKT(uint8_t, 1, 2, 8));
    RUN_ALL(4, "BucketingPGMIndex<uint64_t,4,4096,0>", BKT(uint64_t, 4, 4096, 0));
#endif
#ifdef LINK_EF
#define EFI(K, E) pgm::EliasFanoPGMIndex<K, E>, K
    RUN_ALL(1, "EliasFanoPGMIndex<uint64_t,1>", EFI(uint64_t, 1));
    RUN_ALL(4, "EliasFanoPGMIndex<uint64_t,4>", EFI(uint64_t, 4));
    RUN_ALL(1, "EliasFanoPGMIndex<uint32_t,1>", EFI(uint32_t, 1));
    RUN_ALL(2, "EliasFanoPGMIndex<uint32_t,2>", EFI(uint32_t, 2));
    RUN_ALL(1, "EliasFanoPGMIndex<uint16_t,1>", EFI(uint16_t, 1));
    isolated("EliasFanoPGMIndex<uint64_t,1> wide-span probe", [&] { std::vector<uint64_t> d{0, UINT64_MAX - 1001, UINT64_MAX - 1}; check_index<EFI(uint64_t, 1)>(d, {5, UINT64_MAX - 2}, 1, "EliasFanoPGMIndex<uint64_t,1> wide-span probe"); });
    isolated("EliasFanoPGMIndex<uint32_t,1> wide-span probe", [&] { std::vector<uint32_t> d{0, UINT32_MAX - 1}; check_index<EFI(uint32_t, 1)>(d, {5, UINT32_MAX - 2}, 1, "EliasFanoPGMIndex<uint32_t,1> wide-span probe"); });
#endif
    unlink(g_trace.c_str());
    return R.finish(false);
}
