"""native -- bounded native links (real C++ against /repo's headers), replay files, reproduction of
counterexamples on the real code."""
import json
import os
import re
import subprocess
import time
import hashlib

VERIF = os.path.dirname(os.path.dirname(os.path.abspath(__file__)))
REPO = os.environ.get('PGMV_REPO', '/repo')
BUILD = os.environ.get('PGMV_BUILD', os.path.join(VERIF, 'build'))

# property -> evidence level (default 'proof')
LEVELS = {'C12': 'other', 'C06': 'other'}
EXPLAIN = {
    'C06': 'Deductive core: DynamicPGMIndex::range under contract (thorough tier only; obligations/discharged below are 0 in the quick tier). Traversal through the iterator / LoserTree, size() and empty() are decided only by the bounded native link on the real class against std::map; bounded results are never counted as proved.',
    'C08': 'CompressedPGMIndex::search and the CompressedLevel accessors are under contract (obligations/discharged below; indexes of at most 8 levels). The constructor and merge_slopes are decided only by the bounded native link on the real class; bounded results are never counted as proved.',
    'C12': 'Deductive core: serialize_and_map under contract and a harness proof of the write/reopen round trip of the header (obligations/discharged below). The equivalence of the two creating constructors and byte-identity of the files are decided only by the bounded native link on the real class (files compared byte by byte); bounded results are never counted as proved.',
    'C15': 'insert, pairwise_merge, merge, the capacity helpers and the constructor are under contract (obligations/discharged below). The invariants along histories are decided only by the bounded native link through the guarded friend accessor; bounded results are never counted as proved.',
}

# bounded native links: dict(name, props, src, flags, args{tier: [..]}, bound, rule, assumptions)
LINKS = []


def L(**kw):
    LINKS.append(kw)


def compile_native(src, out, flags=()):
    os.makedirs(os.path.dirname(out), exist_ok=True)
    cmd = ['g++', '-std=c++17', '-O2', '-march=native', '-fopenmp', '-DPGM_INDEX_VERIF', '-I', os.path.join(REPO, 'include'),
           '-I', os.path.join(REPO, 'c-interface'), '-I', os.path.join(VERIF, 'native')] + list(flags) + [src, '-o', out]
    p = subprocess.run(cmd, stdout=subprocess.PIPE, stderr=subprocess.PIPE)
    if p.returncode != 0:
        return False, p.stderr.decode('utf-8', 'replace')[-3000:]
    return True, ''


def run_link(link, tier, seed):
    """Build the link's program from the working tree and run it.  Protocol: the program prints one JSON object per line:
       {"violation": "...", "input": ...}  |  {"sample": ...}  |  {"summary": {"cases": n, "distinct": n, "exhaustive": bool}}"""
    t0 = time.time()
    rec = {'name': link['name'], 'bound': link.get('bound', {}).get(tier, ''), 'rule': link.get('rule', ''), 'status': 'ok', 'violations': [],
           'samples': [], 'assumptions': link.get('assumptions', [])}
    exe = os.path.join(BUILD, 'native', link['name'])
    ok, err = compile_native(os.path.join(VERIF, 'native', link['src']), exe, link.get('flags', ()))
    if not ok:
        rec['status'] = 'undecided'
        rec['reason'] = 'native build failed: ' + err
        return rec
    env = dict(os.environ)
    env['VERIF_SEED'] = str(seed)
    env.update(link.get('env', {}).get(tier, {}))
    try:
        p = subprocess.run([exe] + [str(x) for x in link.get('args', {}).get(tier, [])], stdout=subprocess.PIPE, stderr=subprocess.PIPE, env=env,
                           timeout=link.get('timeout', {}).get(tier, 3000))
    except subprocess.TimeoutExpired:
        rec['status'] = 'undecided'
        rec['reason'] = 'native link timed out'
        return rec
    out = p.stdout.decode('utf-8', 'replace')
    summary = None
    for line in out.split('\n'):
        line = line.strip()
        if not line.startswith('{'):
            continue
        try:
            o = json.loads(line)
        except Exception:
            continue
        if 'violation' in o:
            rec['violations'].append({'what': o['violation'], 'input': o.get('input'), 'link': link['name'], 'replay_args': o.get('replay')})
        elif 'sample' in o and len(rec['samples']) < 6:
            rec['samples'].append({'link': link['name'], 'case': o['sample']})
        elif 'summary' in o:
            summary = o['summary']
    if (summary is None or p.returncode not in (0, 1)) and rec['violations']:
        # the link reported violations and then died (e.g. a memory error in the library while exercising the failing input): the violations stand
        rec['violations'].append({'what': 'the link process was terminated by signal/exit code %s after reporting the violations above (memory error in the code under test)' % p.returncode,
                                  'input': None, 'link': link['name'], 'replay_args': None})
        rec['cases'] = len(rec['violations'])
        rec['distinct'] = len(rec['violations'])
        rec['wall_s'] = round(time.time() - t0, 1)
        return rec
    if summary is None or (p.returncode not in (0, 1)):
        rec['status'] = 'undecided'
        rec['reason'] = 'native link crashed or gave no summary (rc=%s): %s' % (p.returncode, (p.stderr.decode('utf-8', 'replace') or out)[-600:])
        return rec
    rec['cases'] = summary.get('cases', 0)
    rec['distinct'] = summary.get('distinct', 0)
    rec['exhaustive'] = summary.get('exhaustive', False)
    rec['wall_s'] = round(time.time() - t0, 1)
    return rec


def write_replay(prop, rec, f):
    d = os.path.join(os.environ.get('PGMV_REPLAY_DIR', os.path.join(VERIF, 'replays')), prop)
    os.makedirs(d, exist_ok=True)
    what = f.get('obligation') or f.get('what')
    h = hashlib.sha1(((rec.get('tag') or rec.get('name')) + what).encode()).hexdigest()[:10]
    path = os.path.join(d, '%s-%s.json' % (re.sub(r'\W+', '_', (rec.get('tag') or rec.get('name')))[:60], h))
    body = {'property': prop, 'unit': rec.get('tag') or rec.get('name'), 'failed_obligation': what,
            'description': f.get('description'), 'clause': f.get('clause'), 'status': f.get('status'),
            'counterexample_values': f.get('values'), 'input': f.get('input'), 'replay_args': f.get('replay_args'), 'link': f.get('link'),
            'verifier_cmds': rec.get('cmds'), 'reproduced_on_real_code': None}
    json.dump(body, open(path, 'w'), indent=1, default=str)
    return path


def try_reproduce(prop, rec, f, path):
    """A violation found by a native link is by construction an input that fails on the real code (the link runs the
    real headers).  For a failed deductive obligation, the unit's reproducer (if any) searches for an API-level
    input exhibiting the failure; the CBMC counterexample values guide it."""
    body = json.load(open(path))
    if f.get('link'):
        body['reproduced_on_real_code'] = True
        json.dump(body, open(path, 'w'), indent=1, default=str)
        return True
    rp = REPRO.get(rec.get('unit'))
    if rp is None:
        body['reproduced_on_real_code'] = False
        body['note'] = 'no native reproducer registered for this unit; obligation passed on the unchanged tree'
        json.dump(body, open(path, 'w'), indent=1, default=str)
        return False
    exe = os.path.join(BUILD, 'native', 'repro_' + rp['name'])
    ok, err = compile_native(os.path.join(VERIF, 'native', rp['src']), exe, rp.get('flags', ()))
    if not ok:
        body['reproduced_on_real_code'] = False
        body['note'] = 'reproducer failed to build: ' + err[-400:]
        json.dump(body, open(path, 'w'), indent=1, default=str)
        return False
    try:
        p = subprocess.run([exe] + [str(x) for x in rp.get('args', [])], stdout=subprocess.PIPE, stderr=subprocess.PIPE, timeout=rp.get('timeout', 600))
        out = p.stdout.decode('utf-8', 'replace')
    except subprocess.TimeoutExpired:
        out = ''
        p = None
    found = None
    known = []
    try:
        kf = json.load(open(os.path.join(VERIF, 'known_findings.json')))
        known = [k['obligation'] for k in kf.get('findings', []) if k.get('link') == rp['name']]
    except Exception:
        pass
    for line in out.split('\n'):
        if line.startswith('{') and '"violation"' in line:
            try:
                cand = json.loads(line)
            except Exception:
                continue
            if any(re.search(k, cand.get('violation', '')) for k in known):
                continue     # a recorded known finding is not a reproduction of this failure
            found = cand
            break
    body['reproduced_on_real_code'] = bool(found)
    if found:
        body['input'] = found.get('input')
        body['replay_args'] = found.get('replay')
        body['link'] = 'repro_' + rp['name']
        body['real_code_failure'] = found.get('violation')
    json.dump(body, open(path, 'w'), indent=1, default=str)
    return bool(found)


def link_replay(path, first):
    """further failed obligations of the same unit share the reproduction found for the first one"""
    body = json.load(open(path))
    b0 = json.load(open(first))
    for k in ('reproduced_on_real_code', 'input', 'replay_args', 'link', 'real_code_failure', 'note'):
        if k in b0:
            body[k] = b0[k]
    json.dump(body, open(path, 'w'), indent=1, default=str)


def run_replay(prop, path):
    body = json.load(open(path))
    print(json.dumps({k: body.get(k) for k in ('property', 'unit', 'failed_obligation', 'clause', 'input', 'reproduced_on_real_code')}, indent=1))
    link = body.get('link')
    if not link or body.get('replay_args') is None:
        print('no native input recorded (deductive obligation only); re-run bin/check %s to re-derive' % prop)
        return 0
    name = link[len('repro_'):] if link.startswith('repro_') else link
    src = None
    for l_ in LINKS:
        if l_['name'] == name:
            src = l_
    for r_ in REPRO.values():
        if r_['name'] == name:
            src = r_
    if src is None:
        print('link %s not registered' % link)
        return 2
    exe = os.path.join(BUILD, 'native', link)
    ok, err = compile_native(os.path.join(VERIF, 'native', src['src']), exe, src.get('flags', ()))
    if not ok:
        print(err)
        return 2
    p = subprocess.run([exe, '--replay'] + [str(x) for x in body['replay_args']])
    return 1 if p.returncode == 1 else 0


# unit name -> reproducer program
REPRO = {}

# ---------------------------------------------------------------------------------------------------
# registry
NOWARN = ['-Wno-deprecated-declarations']
L(name='md_contains_link', props=['C14'], src='md_link.cpp', flags=NOWARN, args={'quick': ['contains', 'quick'], 'thorough': ['contains', 'thorough']},
  bound={'quick': 'all subsets of a 3x3 grid (with duplicates) + 3 dense 64x64 grids, 2-D, uint32/uint64, Epsilon 4; every query point of the grid + 1',
         'thorough': 'same with 12 dense grids'},
  rule='real MultidimensionalPGMIndex::contains vs. std::multiset membership; a case is one (point set, query) pair; distinct = point sets',
  assumptions=['bounded link: never counted as proved'])
L(name='md_range_link', props=['C13'], src='md_link.cpp', flags=NOWARN, args={'quick': ['range', 'quick'], 'thorough': ['range', 'thorough']},
  bound={'quick': 'all subsets of a 3x3 grid + 3 dense 64x64 grids (every cell / random holes / duplicates), 2-D, uint32/uint64; grid of boxes + all one-cell-thick slabs',
         'thorough': '12 dense 64x64 grids + 3 dense 128x128 grids'},
  rule='real range(min,max)..end() as a multiset vs. brute-force filter; a case is one (point set, box) pair; distinct = point sets',
  assumptions=['bounded link: never counted as proved'])
REPRO['md_contains'] = dict(name='md_contains_link', src='md_link.cpp', flags=NOWARN, args=['contains', 'quick'])
REPRO['md_advance'] = dict(name='md_range_link', src='md_link.cpp', flags=NOWARN, args=['range', 'quick'])
REPRO['md_ctor'] = dict(name='md_range_link', src='md_link.cpp', flags=NOWARN, args=['range', 'quick'])

STATIC = ['-Wno-deprecated-declarations', '-DNDEBUG']
SB = {'quick': 'all sorted arrays of length <= 5 over 3-4 alphabets of 6 keys (bottom / middle / top of the key range, every duplicate pattern) + 25 random arrays (n <= 3000, duplicate runs, skewed) per configuration; queries: every key, key+-1, lowest(), max-1, mid-range',
      'thorough': 'arrays of length <= 7, 120 random arrays per configuration'}
L(name='pgm_static_link', props=['C01', 'C02'], src='static_link.cpp', flags=STATIC + ['-DLINK_PGM'], args={'quick': ['quick'], 'thorough': ['thorough']}, bound=SB,
  rule='real PGMIndex<K,Eps,EpsRec,Floating>::search (15 configurations incl. all 8 integer key types, float/double keys, binary-search routing) vs std::lower_bound: lo<=hi<=n, width, C02 bracket, C01 strictness; plus chunked construction (n=2^15, 16 and 5 threads, 5 duplicate-run shapes at chunk seams); a case = one (array, query); distinct = arrays',
  assumptions=['bounded link: establishes ACC and WF_levels (the assumed interface of the search-side proofs) only on the enumerated inputs; never counted as proved'])
L(name='compressed_static_link', props=['C08'], src='static_link.cpp', flags=STATIC + ['-DLINK_COMPRESSED'], args={'quick': ['quick'], 'thorough': ['thorough']}, bound=SB,
  rule='real CompressedPGMIndex::search (7 configurations: 8..64-bit keys, EpsilonRecursive 0/1/4/256) vs std::lower_bound', assumptions=['bounded link: never counted as proved'])
L(name='bucketing_static_link', props=['C09'], src='static_link.cpp', flags=STATIC + ['-DLINK_BUCKETING'], args={'quick': ['quick'], 'thorough': ['thorough']}, bound=SB,
  rule='real BucketingPGMIndex::search (7 configurations: power-of-two and other TopLevelSize, fixed and dynamic cell width) vs std::lower_bound', assumptions=['bounded link: never counted as proved'])
L(name='ef_static_link', props=['C10', 'C17'], src='static_link.cpp', flags=STATIC + ['-DLINK_EF'], args={'quick': ['quick'], 'thorough': ['thorough']}, bound=SB,
  rule='real EliasFanoPGMIndex::search (5 configurations, 16..64-bit keys) vs std::lower_bound; each configuration runs in a child process so that a memory error is reported, not fatal',
  assumptions=['bounded link: never counted as proved'])
L(name='mapped_queries_link', props=['C11'], src='mapped_link.cpp', flags=STATIC, args={'quick': ['queries', 'quick'], 'thorough': ['queries', 'thorough']},
  bound={'quick': '6 configurations (signed/unsigned 16..64-bit keys, Epsilon 1..128, EpsilonRecursive 0..4); duplicate runs of length 1, 2, 2eps+1..2eps+3, 63..65, 300, ending at end() or followed by more keys; 12 random arrays each',
         'thorough': '60 random arrays each'},
  rule='real MappedPGMIndex lower_bound/upper_bound/count/contains/begin/end/size vs the std algorithms', assumptions=['bounded link: never counted as proved'])
L(name='mapped_files_link', props=['C12'], src='mapped_link.cpp', flags=STATIC, args={'quick': ['files', 'quick'], 'thorough': ['files', 'thorough']},
  bound={'quick': 'same arrays as mapped_queries_link', 'thorough': '60 random arrays each'},
  rule='create from range vs create from raw key file vs reopen (twice): byte-identical files, identical answers, reopening does not alter the file',
  assumptions=['bounded link: never counted as proved'])
REPRO['pgmindex_search'] = dict(name='pgm_static_link', src='static_link.cpp', flags=STATIC + ['-DLINK_PGM'], args=['quick'])
REPRO['pgmindex_segment_for_key'] = REPRO['pgmindex_search']
REPRO['segment_call'] = REPRO['pgmindex_search']
REPRO['ef_search'] = dict(name='ef_static_link', src='static_link.cpp', flags=STATIC + ['-DLINK_EF'], args=['quick'])
REPRO['ef_segmentdata_call'] = REPRO['ef_search']
REPRO['bucketing_search'] = dict(name='bucketing_static_link', src='static_link.cpp', flags=STATIC + ['-DLINK_BUCKETING'], args=['quick'])
REPRO['bucketing_segment_for_key'] = REPRO['bucketing_search']
for _u in ('compressed_size', 'compressed_get_intercept', 'compressed_get_slope', 'compressed_call'):
    REPRO[_u] = dict(name='compressed_static_link', src='static_link.cpp', flags=STATIC + ['-DLINK_COMPRESSED'], args=['quick'])
for _u in ('mapped_lower_bound', 'mapped_upper_bound', 'mapped_count', 'mapped_contains'):
    REPRO[_u] = dict(name='mapped_queries_link', src='mapped_link.cpp', flags=STATIC, args=['queries', 'quick'])
DYNF = ['-Wno-deprecated-declarations', '-DNDEBUG']
DB = {'quick': '7 configurations (base 2..16, buffer_level 1..2, index_level 0..3: small levels carry a PGM-index) x 8 histories: bulk-load (empty or sorted with repeated keys) + 500 insert_or_assign/erase over a 61- or 201-key universe with revisited keys; checks after every operation (invariants) / every 7th (queries)',
      'thorough': '40 histories of 1500 operations per configuration'}
L(name='dyn_points_link', props=['C05'], src='dyn_link.cpp', flags=DYNF, args={'quick': ['points', 'quick'], 'thorough': ['points', 'thorough']}, bound=DB,
  rule='real DynamicPGMIndex find/count/lower_bound for every key of the universe vs std::map after histories; a case = one operation of a history; distinct = histories',
  assumptions=['bounded link: never counted as proved'])
L(name='dyn_traversal_link', props=['C06'], src='dyn_link.cpp', flags=DYNF, args={'quick': ['traversal', 'quick'], 'thorough': ['traversal', 'thorough']}, bound=DB,
  rule='real begin()..end(), iteration from lower_bound, range(lo,hi), size(), empty() vs std::map after histories', assumptions=['bounded link: never counted as proved'])
L(name='dyn_invariants_link', props=['C15'], src='dyn_link.cpp', flags=DYNF, args={'quick': ['invariants', 'quick'], 'thorough': ['invariants', 'thorough']}, bound=DB,
  rule='LSM invariants read through the guarded friend accessor after every operation: strict sortedness, capacities, no data beyond used_levels, index of every non-empty indexed level built on exactly its keys, emptied levels own a default index',
  assumptions=['bounded link: never counted as proved'])
for _u in ('dyn_lower_bound_bl', 'dyn_find'):
    REPRO[_u] = dict(name='dyn_points_link', src='dyn_link.cpp', flags=DYNF, args=['points', 'quick'])
REPRO['dyn_range'] = dict(name='dyn_traversal_link', src='dyn_link.cpp', flags=DYNF, args=['traversal', 'quick'])
for _u in ('dyn_merge', 'dyn_merge_slice'):
    REPRO[_u] = dict(name='dyn_points_link', src='dyn_link.cpp', flags=DYNF, args=['points', 'quick'])
for _u in ('dyn_ceil_log2', 'dyn_max_size', 'dyn_insert', 'dyn_pairwise_merge', 'dyn_pairwise_merge_full', 'dyn_ctor'):
    REPRO[_u] = dict(name='dyn_invariants_link', src='dyn_link.cpp', flags=DYNF, args=['invariants', 'quick'])
L(name='guards_link', props=['C20'], src='guards_link.cpp', flags=['-Wno-deprecated-declarations', '-DNDEBUG'], args={'quick': [], 'thorough': []},
  bound={'quick': 'reserved key at the end of arrays of length 1/2/5/40 (1-3 copies) for 7 key types x 4 index classes; every base 3..255; unsorted pair at every ~20th position of bulk loads of 2/3/10/200 pairs; tombstone value every 5th step of a 600-step history; lo>hi; too-wide coordinate in either position; non-increasing x as point 2..6 of a segment', 'thorough': 'same'},
  rule='every documented rejection is provoked on the real classes and the exception type checked; a rejected insert is compared with std::map state',
  assumptions=['bounded link: never counted as proved'])
for _u in ('oplm_ctor', 'oplm_add_point', 'oplm_reset', 'dyn_item_ctor', 'dyn_ctor'):
    REPRO[_u] = dict(name='guards_link', src='guards_link.cpp', flags=['-Wno-deprecated-declarations', '-DNDEBUG'], args=[])
GEOF = ['-Wno-deprecated-declarations', '-DNDEBUG']
GB = {'quick': 'all sorted arrays of length <= 6 over 3-4 alphabets (bottom/middle/top of the key range), epsilon 0..3, sequential and every 2-chunk split; 12 random arrays (n <= 3050) x epsilon {1,4,16,64}, sequential and 5 chunks; key types uint64/int64/uint32/int16/uint8',
      'thorough': 'arrays of length <= 8, 60 random arrays per epsilon'}
L(name='geo_accuracy_link', props=['C03'], src='geo_link.cpp', flags=GEOF, args={'quick': ['quick'], 'thorough': ['thorough']}, bound=GB,
  rule='real make_segmentation on each chunk; fed points recorded through the hook PGM_INDEX_VERIF_ADD_POINT; exact __int128 rational oracle: order, first occurrences fed, exactly-one coverage, extreme line within epsilon, reported (slope,intercept) within epsilon+1/2, feasibility of each segment',
  assumptions=['bounded link: never counted as proved', 'integer key types only (floating keys are covered by pgm_static_link end to end)'])
L(name='geo_maximality_link', props=['C04'], src='geo_link.cpp', flags=GEOF, args={'quick': ['quick'], 'thorough': ['thorough']}, bound=GB,
  rule='same runs; maximality judged by an independent feasibility test (lines through pairs of band end-points, band clamped at rank 0) on each segment plus the first point of the next one; consecutive starts > 2*epsilon ranks apart',
  assumptions=['bounded link: never counted as proved'])
for _u in ('ms_add_point', 'make_segmentation', 'oplm_reset'):
    REPRO[_u] = dict(name='geo_accuracy_link', src='geo_link.cpp', flags=GEOF, args=['quick'])
for _u in ('pgmindex_segments_count', 'lemma_counting'):
    REPRO[_u] = dict(name='geo_maximality_link', src='geo_link.cpp', flags=GEOF, args=['quick'])
REPRO['cwrap_search'] = dict(name='pgm_static_link', src='static_link.cpp', flags=STATIC + ['-DLINK_PGM'], args=['quick'])
