// Shared helpers of the bounded native links: input generators and the JSON-lines report protocol.
#pragma once
#include <algorithm>
#include <cmath>
#include <cstdint>
#include <cstdio>
#include <cstdlib>
#include <limits>
#include <random>
#include <set>
#include <sstream>
#include <string>
#include <type_traits>
#include <vector>

namespace vl {

struct Report {
    long cases = 0, distinct = 0, violations = 0;
    int samples = 0;
    int max_violations = 6;
    std::set<std::string> seen;
    void violation(const std::string &what, const std::string &input, const std::string &replay = "") {
        // one line per distinct failure shape (the text before the first digit run is the shape)

        printf("{\"violation\": \"%s\", \"input\": %s%s}\n", what.c_str(), input.c_str(), replay.empty() ? "" : (", \"replay\": " + replay).c_str());
        fflush(stdout);
        ++violations;
    }
    void sample(const std::string &s) {
        if (samples++ < 5) printf("{\"sample\": %s}\n", s.c_str());
    }
    int finish(bool exhaustive = false) {
        printf("{\"summary\": {\"cases\": %ld, \"distinct\": %ld, \"violations\": %ld, \"exhaustive\": %s}}\n", cases, distinct, violations, exhaustive ? "true" : "false");
        return violations ? 1 : 0;
    }
};

template<typename K> std::string num(K v) {
    std::ostringstream o;
    if constexpr (std::is_floating_point_v<K>) { o.precision(17); o << v; }
    else if constexpr (sizeof(K) == 1) o << int(v);
    else o << v;
    return o.str();
}

template<typename K> std::string arr(const std::vector<K> &a, size_t limit = 48) {
    std::string s = "[";
    for (size_t i = 0; i < a.size() && i < limit; ++i) s += (i ? "," : "") + num(a[i]);
    if (a.size() > limit) s += ",\"... (" + std::to_string(a.size()) + " keys)\"";
    return s + "]";
}

template<typename K> K reserved() {
    if constexpr (std::numeric_limits<K>::has_infinity) return std::numeric_limits<K>::infinity();
    else return std::numeric_limits<K>::max();
}

// successor / predecessor in the key type (saturating)
template<typename K> K succ(K v) {
    if constexpr (std::is_floating_point_v<K>) return std::nextafter(v, std::numeric_limits<K>::infinity());
    else return v == std::numeric_limits<K>::max() ? v : K(v + 1);
}
template<typename K> K pred(K v) {
    if constexpr (std::is_floating_point_v<K>) return std::nextafter(v, -std::numeric_limits<K>::infinity());
    else return v == std::numeric_limits<K>::lowest() ? v : K(v - 1);
}

// alphabets of 6 keys at the bottom, middle and top of the key range (top excludes the reserved value)
template<typename K> std::vector<std::vector<K>> alphabets() {
    std::vector<std::vector<K>> out;
    if constexpr (std::is_floating_point_v<K>) {
        out.push_back({K(0.1), K(0.2), K(0.3), K(0.4), K(0.7), K(0.9)});
        out.push_back({K(-3.5), K(-1.25), K(0), K(1.001), K(1.002), K(7e3)});
        out.push_back({K(1e30), K(1.0000001e30), K(2e30), K(2.5e30), K(3e30), K(3.1e30)});
    } else {
        K lo = std::numeric_limits<K>::lowest(), hi = K(std::numeric_limits<K>::max() - 1);
        K mid = K(lo / 2 + hi / 2);
        out.push_back({lo, K(lo + 1), K(lo + 2), K(lo + 5), K(lo + 6), K(lo + 20)});
        out.push_back({K(mid - 9), K(mid - 8), K(mid), K(mid + 1), K(mid + 3), K(mid + 40)});
        out.push_back({K(hi - 30), K(hi - 7), K(hi - 6), K(hi - 2), K(hi - 1), hi});
        if (sizeof(K) >= 4) out.push_back({lo, K(lo + 3), mid, K(mid + 1000), K(hi - 1000), hi});
    }
    return out;
}

// all non-decreasing sequences of length len over alphabet a, visited through f
template<typename K, typename F> void for_sorted_sequences(const std::vector<K> &a, size_t len, F f) {
    std::vector<size_t> idx(len, 0);
    std::vector<K> cur(len);
    while (true) {
        for (size_t i = 0; i < len; ++i) cur[i] = a[idx[i]];
        f(cur);
        size_t i = len;
        while (i > 0 && idx[i - 1] == a.size() - 1) --i;
        if (i == 0) break;
        size_t v = idx[i - 1] + 1;
        for (size_t j = i - 1; j < len; ++j) idx[j] = v;
    }
}

// random sorted array with duplicate runs
template<typename K, typename R> std::vector<K> random_sorted(R &rng, size_t n, int shape) {
    std::vector<K> v;
    v.reserve(n);
    using W = std::conditional_t<std::is_floating_point_v<K>, double, long double>;
    W lo = W(std::numeric_limits<K>::lowest()), hi = W(std::numeric_limits<K>::max());
    if constexpr (std::is_floating_point_v<K>) { lo = -1e6; hi = 1e6; }
    std::uniform_real_distribution<double> u(0, 1);
    for (size_t i = 0; i < n; ++i) {
        double x = u(rng);
        if (shape == 1) x = x * x * x;                  // skewed to the bottom
        if (shape == 2) x = 1 - x * x * x;              // skewed to the top
        if (shape == 3) x = std::floor(x * 50) / 50;    // heavy duplicates
        W val = lo + (hi - lo) * W(x);
        if constexpr (std::is_floating_point_v<K>) { if (shape == 4) val = std::round(val * 1000) / 1000; }
        K k = K(val);
        if (k == reserved<K>()) k = pred(k);
        v.push_back(k);
        if (shape >= 3 && u(rng) < 0.3) { size_t run = 1 + size_t(u(rng) * 6); for (size_t r = 0; r < run && v.size() < n; ++r, ++i) v.push_back(k); }
    }
    v.resize(std::min(v.size(), n));
    std::sort(v.begin(), v.end());
    return v;
}

// query set for a data array: every key, its two neighbours, both extremes, midpoints
template<typename K> std::vector<K> queries_for(const std::vector<K> &data, size_t cap = 400) {
    std::vector<K> q;
    size_t step = std::max<size_t>(1, data.size() / cap);
    for (size_t i = 0; i < data.size(); i += step) { q.push_back(data[i]); q.push_back(succ(data[i])); q.push_back(pred(data[i])); }
    if (!data.empty()) { q.push_back(data.back()); q.push_back(succ(data.back())); }
    q.push_back(std::numeric_limits<K>::lowest());
    q.push_back(pred(reserved<K>()));
    if constexpr (!std::is_floating_point_v<K>) { q.push_back(K(std::numeric_limits<K>::max() / 2)); q.push_back(K(std::numeric_limits<K>::max() - 2)); }
    else { q.push_back(std::numeric_limits<K>::max() / 4); }
    std::vector<K> out;
    for (auto k : q) if (k != reserved<K>() && k == k) out.push_back(k);
    std::sort(out.begin(), out.end());
    out.erase(std::unique(out.begin(), out.end()), out.end());
    return out;
}

inline uint64_t seed_from_env() { return getenv("VERIF_SEED") ? strtoull(getenv("VERIF_SEED"), nullptr, 10) : 1; }

} // namespace vl
