"""Family `cwrap`: c-interface/cpgm.cpp -- PGMWrapper (the static index behind the C API), C18."""
from unit import Family, ClassDesc, FuncDesc
from emit import FuncInfo

CPP = 'c-interface/cpgm.cpp'
PGM = 'include/pgm/pgm_index.hpp'

FAMILY = Family(
    'cwrap',
    typemap={'K': 'K', 'Floating': 'Floating', 'Segment': 'Segment', 'approx_pos_t': 'approx_pos_t'},
    classes=[
        ClassDesc('Segment', PGM, 'Segment', packed=True),
        ClassDesc('PGMWrapper', CPP, 'PGMWrapper', base_struct='PGMBase',
                  methods={'segment_for_key': 'PGMWrapper_segment_for_key', 'search': 'PGMWrapper_search'}),
    ],
    extra_structs={'approx_pos_t': {'pos': 'size_t', 'lo': 'size_t', 'hi': 'size_t'},
                   'PGMBase': {'n': 'size_t', 'first_key': 'K', 'segments': 'Vec<Segment>', 'levels_offsets': 'Vec<size_t>'}},
    callops={'Segment': FuncInfo('Segment_call', 'size_t')},
    conv={'Segment': 'key'},
    funcs={'PGM_SUB_EPS': FuncInfo('PGM_SUB_EPS', 'size_t'), 'PGM_ADD_EPS': FuncInfo('PGM_ADD_EPS', 'size_t')},
    typenames={'K', 'Floating', 'Segment', 'approx_pos_t'},
)
FUNCS = {}
FUNCS['PGMWrapper_search'] = FuncDesc('PGMWrapper_search', CPP, 'search', 'approx_pos_t PGMWrapper_search(const PGMWrapper *self, K key)', cls='PGMWrapper', ret='approx_pos_t',
                                      params={'key': 'K'}, must_fire=('std_minmax', 'call_operator', 'return_brace', 'this_member', 'iter_arrow'))
FUNCS['PGMWrapper_segment_for_key'] = FuncDesc('PGMWrapper_segment_for_key', PGM, 'segment_for_key', 'size_t PGMWrapper_segment_for_key(const PGMWrapper *self, K key)',
                                               cls='PGMIndex', ret='It<Segment>', ret_base='self->segments.data')
FUNCS['Segment_call'] = FuncDesc('Segment_call', PGM, 'operator()', 'size_t Segment_call(const Segment *self, K k)', cls='Segment', ret='size_t')
PRELUDE = 'PGMV_DEF_MINMAX(K)\ntypedef struct { size_t pos; size_t lo; size_t hi; } approx_pos_t;   /* cpgm.h */\n'
LAYOUT = ['struct:Segment', 'vec:Segment', 'vec:size_t', 'struct:PGMWrapper']
MACROS = [(PGM, 'PGM_SUB_EPS'), (PGM, 'PGM_ADD_EPS')]
