// Bounded native link for C11 / C12: the REAL MappedPGMIndex against the std algorithms, and the three ways of
// obtaining a container (from a range, from a raw key file, by reopening) against each other.
// usage: mapped_link <queries|files|all> <quick|thorough>
#include <sys/stat.h>
#include <unistd.h>
#include <fstream>
#include "common.hpp"
#include "pgm/pgm_index_variants.hpp"

static vl::Report R;
static std::string dir;

static std::vector<char> slurp(const std::string &p) {
    std::ifstream f(p, std::ios::binary);
    return std::vector<char>((std::istreambuf_iterator<char>(f)), std::istreambuf_iterator<char>());
}

template<typename K, size_t Eps, size_t EpsRec>
static void check_queries(const std::vector<K> &data, const std::string &cfg) {
    std::string f1 = dir + "/q.bin";
    pgm::MappedPGMIndex<K, Eps, EpsRec> m(data.begin(), data.end(), f1);
    bool bad = false;
    auto fail = [&](const std::string &what, K q) {
        if (R.seen.insert(cfg + "|" + what).second)
            R.violation(cfg + ": " + what + " differs from the std algorithm for query " + vl::num(q), "{\"config\": \"" + cfg + "\", \"query\": \"" + vl::num(q) + "\", \"n\": " + std::to_string(data.size()) + ", \"data\": " + vl::arr(data) + "}");
        bad = true;
    };
    if (m.size() != data.size() || !std::equal(m.begin(), m.end(), data.begin())) fail("begin()/end()/size()", K(0));
    for (K q : vl::queries_for(data, 300)) {
        ++R.cases;
        size_t lb = std::lower_bound(data.begin(), data.end(), q) - data.begin();
        size_t ub = std::upper_bound(data.begin(), data.end(), q) - data.begin();
        if (size_t(m.lower_bound(q) - m.begin()) != lb) fail("lower_bound", q);
        if (size_t(m.upper_bound(q) - m.begin()) != ub) fail("upper_bound", q);
        if (m.count(q) != ub - lb) fail("count", q);
        if (m.contains(q) != (ub > lb)) fail("contains", q);
    }
}

template<typename K, size_t Eps, size_t EpsRec>
static void check_files(const std::vector<K> &data, const std::string &cfg) {
    std::string raw = dir + "/raw.bin", a = dir + "/a.bin", b = dir + "/b.bin";
    { std::ofstream o(raw, std::ios::binary); o.write((const char *) data.data(), data.size() * sizeof(K)); }
    auto fail = [&](const std::string &what) {
 		if (R.seen.insert(cfg + "|" + what.substr(0, what.find(", query"))).second)
            R.violation(cfg + ": " + what, "{\"config\": \"" + cfg + "\", \"n\": " + std::to_string(data.size()) + ", \"data\": " + vl::arr(data) + "}");
    };
    ++R.cases;
    std::vector<char> fa, fb;
    {
        pgm::MappedPGMIndex<K, Eps, EpsRec> from_range(data.begin(), data.end(), a);
        pgm::MappedPGMIndex<K, Eps, EpsRec> from_raw(raw, b);
        fa = slurp(a);
        fb = slurp(b);
        if (fa != fb) {
            size_t i = 0;
            while (i < fa.size() && i < fb.size() && fa[i] == fb[i]) ++i;
            fail("files written from a range and from a raw key file differ at byte " + std::to_string(i) + " (C12)");
        }
        for (K q : vl::queries_for(data, 60)) {
            ++R.cases;
            if ((from_range.lower_bound(q) - from_range.begin()) != (from_raw.lower_bound(q) - from_raw.begin()) || from_range.count(q) != from_raw.count(q))
                fail("container built from a raw key file answers differently from the one built from the range (C12), query " + vl::num(q));
        }
    }
    {
        pgm::MappedPGMIndex<K, Eps, EpsRec> re1(b);
        pgm::MappedPGMIndex<K, Eps, EpsRec> re2(b);
        if (re1.size() != data.size() || !std::equal(re1.begin(), re1.end(), data.begin())) fail("reopened container does not hold the sequence (C12)");
        for (K q : vl::queries_for(data, 60)) {
            ++R.cases;
            size_t lb = std::lower_bound(data.begin(), data.end(), q) - data.begin();
            size_t ub = std::upper_bound(data.begin(), data.end(), q) - data.begin();
            if (size_t(re1.lower_bound(q) - re1.begin()) != lb || re2.count(q) != ub - lb) fail("reopened container answers differently from the std algorithms (C12), query " + vl::num(q));
        }
    }
    if (slurp(b) != fb) fail("reopening altered the file (C12)");
}

template<typename K, size_t Eps, size_t EpsRec>
static void run(const std::string &cfg, bool q, bool f, int rounds, uint64_t seed) {
    std::mt19937_64 rng(seed);
    // duplicate runs of every length relative to the search range, runs reaching end(), boundary keys
    for (size_t run : {size_t(1), size_t(2), 2 * Eps + 1, 2 * Eps + 2, 2 * Eps + 3, size_t(63), size_t(64), size_t(65), size_t(300)})
        for (int tail = 0; tail < 2; ++tail) {
            std::vector<K> d;
            K base = std::is_signed_v<K> ? K(-50) : K(0);
            for (int i = 0; i < 40; ++i) d.push_back(K(base + 2 * i));
            for (size_t i = 0; i < run; ++i) d.push_back(K(base + 100));
            if (tail) for (int i = 0; i < 30; ++i) d.push_back(K(base + 103 + 3 * i));
            ++R.distinct;
            if (q) check_queries<K, Eps, EpsRec>(d, cfg);
            if (f) check_files<K, Eps, EpsRec>(d, cfg);
        }
    // sizes that are multiples of common I/O block sizes (the key block of the file is written/read in bulk by some implementations)
    if (f)
        for (size_t n : {size_t(4096), size_t(8192), size_t(16384), size_t(32768)}) {
            std::vector<K> d(n);
            for (size_t i = 0; i < n; ++i) d[i] = K((std::is_signed_v<K> ? -1000 : 0) + K(i / 2));
            ++R.distinct;
            check_files<K, Eps, EpsRec>(d, cfg);
        }
    for (int r = 0; r < rounds; ++r) {
        auto d = vl::random_sorted<K>(rng, 1 + rng() % 2500, r % 4);
        if (d.empty()) continue;
        ++R.distinct;
        if (r < 1) R.sample("{\"config\": \"" + cfg + "\", \"n\": " + std::to_string(d.size()) + ", \"data\": " + vl::arr(d, 10) + "}");
        if (q) check_queries<K, Eps, EpsRec>(d, cfg);
        if (f) check_files<K, Eps, EpsRec>(d, cfg);
    }
}

int main(int argc, char **argv) {
    std::string what = argc > 1 ? argv[1] : "all", tier = argc > 2 ? argv[2] : "quick";
    char tmpl[] = "/tmp/pgmv_mapped.XXXXXX";
    dir = mkdtemp(tmpl);
    bool q = what != "files", f = what != "queries";
    int rounds = tier == "thorough" ? 60 : 12;
    uint64_t seed = vl::seed_from_env();
    run<uint32_t, 8, 4>("MappedPGMIndex<uint32_t,8,4>", q, f, rounds, seed);
    run<int64_t, 4, 0>("MappedPGMIndex<int64_t,4,0>", q, f, rounds, seed + 1);
    run<uint64_t, 32, 4>("MappedPGMIndex<uint64_t,32,4>", q, f, rounds, seed + 2);
    run<int32_t, 1, 1>("MappedPGMIndex<int32_t,1,1>", q, f, rounds, seed + 3);
    run<int16_t, 2, 4>("MappedPGMIndex<int16_t,2,4>", q, f, rounds, seed + 4);
    run<uint16_t, 128, 0>("MappedPGMIndex<uint16_t,128,0>", q, f, rounds, seed + 5);
    std::string cmd = "rm -rf " + dir;
    if (system(cmd.c_str())) {}
    return R.finish(false);
}
