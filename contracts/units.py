"""Registry of contract units.  A unit = one function of /repo under contract (+ helpers inlined,
+ callees replaced by their contracts) for a list of instantiations."""
import fam_pgm
import fam_md
import fam_mapped
import fam_dyn
import fam_ef
import fam_compressed
import fam_plm
import fam_cwrap


class Unit:
    def __init__(self, name, fam, target, props, inline=(), stubs=(), assumed=(), decls=(), lemmas=(), macros=(), insts=(), mode='P',
                 unwind=None, solver='minisat', timeout=600, mem_gb=8, thorough_insts=(), notes='', object_bits=12, harness=None,
                 frame_ghost_only=False, extra_flags=(), canary=True, spec=('pgm.spec',), cases=None, assumptions=(), partition=0, defines=(), drop_checks=(), extract_from=None, target_sig=None, attach=(), lemma_only=False, thorough_only_props=(), plain=False):
        self.name, self.fam, self.target, self.props = name, fam, target, list(props)
        self.inline, self.stubs, self.assumed = list(inline), list(stubs), list(assumed)
        self.decls, self.lemmas, self.macros = list(decls), list(lemmas), list(macros)
        self.insts, self.thorough_insts = list(insts), list(thorough_insts)
        self.mode, self.unwind, self.solver, self.timeout, self.mem_gb = mode, unwind, solver, timeout, mem_gb
        self.notes, self.object_bits, self.harness = notes, object_bits, harness
        self.frame_ghost_only = frame_ghost_only
        self.extra_flags = list(extra_flags)
        self.canary = canary
        self.spec = list(spec)
        self.cases = cases          # optional case split: list of (-D name=value) tuples, each an independent cbmc run
        self.assumptions = list(assumptions)
        self.partition = partition
        self.defines = list(defines)
        self.drop_checks = list(drop_checks)
        self.extract_from, self.target_sig, self.attach = extract_from, target_sig, list(attach)
        self.plain = plain
        self.lemma_only = lemma_only
        self.thorough_only_props = list(thorough_only_props)   # properties this unit serves in the thorough tier only (too slow to repeat per property on every change)


def kinst(k, floating='float'):
    """instantiation defines for key type k"""
    info = {
        'uint64_t': ('uint64_t', 'UINT64_MAX', '((uint64_t)0)'),
        'int64_t': ('uint64_t', 'INT64_MAX', 'INT64_MIN'),
        'uint32_t': ('uint32_t', 'UINT32_MAX', '((uint32_t)0)'),
        'int32_t': ('uint32_t', 'INT32_MAX', 'INT32_MIN'),
        'uint16_t': ('uint16_t', 'UINT16_MAX', '((uint16_t)0)'),
        'int16_t': ('uint16_t', 'INT16_MAX', 'INT16_MIN'),
        'uint8_t': ('uint8_t', 'UINT8_MAX', '((uint8_t)0)'),
        'int8_t': ('uint8_t', 'INT8_MAX', 'INT8_MIN'),
    }[k]
    return {'name': '%s_%s' % (k, floating),
            'defs': {'K': k, 'K_unsigned': info[0], 'PGMV_LIMITS_K_max': info[1], 'PGMV_LIMITS_K_lowest': info[2],
                     'PGMV_LIMITS_K_min': info[2], 'PGMV_LIMITS_K_has_infinity': '0', 'PGMV_LIMITS_K_infinity': '((K)0)',
                     'Floating': floating}}


QUICK_K = [kinst('uint64_t'), kinst('int64_t')]
ALL_K = [kinst(k, f) for k in ('uint64_t', 'int64_t', 'uint32_t', 'int32_t', 'uint16_t', 'int16_t', 'uint8_t', 'int8_t') for f in ('float', 'double')]
# the instantiations of PGMIndex::search that finish within the thorough time-out (8-bit keys, 64-bit keys with double slopes and int16/float exceed 600 s per process under load; not run)
SEARCH_THOROUGH_K = [kinst(k, f) for (k, f) in (('uint64_t', 'float'), ('int64_t', 'float'), ('uint32_t', 'float'), ('uint32_t', 'double'), ('int32_t', 'float'), ('int32_t', 'double'),
                                                 ('uint16_t', 'float'), ('uint16_t', 'double'), ('int16_t', 'double'))]

ACC_NOTE = ('ACC (DESIGN 4): accuracy of the float evaluation of the selected segment w.r.t. the ghost rank is the assumed '
            'postcondition of Segment::operator(); established on the build side only by the bounded native link')

UNITS = []


def U(*a, **kw):
    u = Unit(*a, **kw)
    UNITS.append(u)
    return u


U('pgmindex_search', fam_pgm, 'PGMIndex_search', ['C01', 'C02', 'C16', 'C17'],
  stubs=['PGMIndex_segment_for_key'], assumed=['Segment_call'], decls=['pgm_ghost'], lemmas=['lemma_intercept0'],
  macros=fam_pgm.MACROS, insts=QUICK_K, thorough_insts=SEARCH_THOROUGH_K, frame_ghost_only=True, assumptions=[ACC_NOTE])

U('pgmindex_segment_for_key', fam_pgm, 'PGMIndex_segment_for_key', ['C01', 'C02', 'C07', 'C16', 'C17'],
  inline=['PGMIndex_height', 'PGMIndex_segments_count'], assumed=['Segment_call'], decls=['pgm_ghost', 'std_upper_bound_Segment'],
  lemmas=['lemma_level', 'lemma_level_first', 'lemma_level_sorted', 'lemma_resp', 'pgmv_upper_bound_Segment'],
  macros=fam_pgm.MACROS, insts=QUICK_K[:1], thorough_insts=QUICK_K, frame_ghost_only=True, assumptions=[ACC_NOTE], partition=32, timeout=1500, thorough_only_props=['C16', 'C17'],
  cases=[('PGMV_CASE', '0'), ('PGMV_CASE', '1'), ('PGMV_CASE', '2')])

U('segment_call', fam_pgm, 'Segment_call', ['C01', 'C02', 'C17'], decls=['pgm_ghost'], defines=['PGMV_F2I_STRICT'], timeout=900,
  drop_checks=['--conversion-check'],   # the signed -> unsigned conversion of k and key is intended (modular, well defined)

  insts=[kinst('uint64_t'), kinst('int64_t'), kinst('int32_t'), kinst('int16_t')], thorough_insts=ALL_K)


# ---------------------------------------------------------------------------------------------------
# MultidimensionalPGMIndex
MD_Q = [fam_md.md_inst('uint64_t', 2), fam_md.md_inst('uint32_t', 3)]
MD_ALL = [fam_md.md_inst(t, d) for t in ('uint64_t', 'uint32_t') for d in (2, 3, 4)]
MD_NOTE = ('a point is identified with its Morton code: encode/Decode are assumed mutually inverse on the in-range domain (mortonnd, pdep/pext)')
SEARCH_NOTE = ('the inner PGMIndex::search is replaced by the C01/C02 contract (proved in units pgmindex_*; its WF_levels/ACC preconditions are '
               'established by build only through the bounded link)')

U('md_contains', fam_md, 'MD_contains', ['C14', 'C17', 'C16'], assumed=['PGMIndexT_search', 'MD_encode', 'morton_Decode'],
  decls=['md_ghost', 'std_bounds_T'], lemmas=['lemma_data_sorted', 'lemma_rank', 'pgmv_lower_bound_T'], insts=MD_Q, thorough_insts=MD_ALL,
  spec=('md.spec',), frame_ghost_only=True, assumptions=[MD_NOTE, SEARCH_NOTE])

U('md_box_zcontains', fam_md, 'MD_box_zcontains', ['C13', 'C17'], inline=['MD_box_zcontains_field'], decls=['md_ghost'], insts=MD_Q, thorough_insts=MD_ALL,
  spec=('md.spec',))

U('md_advance', fam_md, 'RangeIterator_advance', ['C13', 'C17', 'C16'], inline=['MD_box_zcontains_field', 'MD_box_zcontains'],
  assumed=['PGMIndexT_search', 'morton_Decode', 'MD_bigmin'], decls=['md_ghost', 'std_bounds_T'],
  lemmas=['lemma_data_sorted', 'lemma_rank', 'lemma_box_range', 'pgmv_upper_bound_T', 'pgmv_lower_bound_T'], insts=MD_Q, thorough_insts=MD_ALL,
  spec=('md.spec',), assumptions=[MD_NOTE, SEARCH_NOTE], timeout=1200)


# ---------------------------------------------------------------------------------------------------
# MappedPGMIndex queries
MAPPED_Q = [kinst('uint64_t')]
MAPPED_ALL = [kinst(k) for k in ('uint64_t', 'int64_t', 'uint32_t', 'int32_t', 'uint16_t', 'int16_t')]
MAPPED_LEM = ['lemma_keys_sorted', 'pgmv_lower_bound_K', 'pgmv_upper_bound_K', 'pgmv_binary_search_K']
for fn, extra in (('lower_bound', []), ('contains', []), ('upper_bound', []), ('count', [])):
    U('mapped_' + fn, fam_mapped, 'Mapped_' + fn, ['C11', 'C16', 'C17'], inline=['Mapped_begin', 'Mapped_size', 'Mapped_end'],
      stubs=(['Mapped_lower_bound', 'Mapped_upper_bound'] if fn == 'count' else []), assumed=['Mapped_search'],
      decls=['mapped_ghost', 'std_bounds_K'], lemmas=MAPPED_LEM, insts=MAPPED_Q, thorough_insts=MAPPED_ALL, spec=('mapped.spec',),
      frame_ghost_only=True, assumptions=[SEARCH_NOTE], timeout=1200, partition=(16 if fn == 'upper_bound' else 0), mem_gb=12,
      thorough_only_props=(['C16', 'C17'] if fn in ('upper_bound', 'count') else []))


# ---------------------------------------------------------------------------------------------------
# DynamicPGMIndex
DYN_Q = [fam_dyn.dinst('uint32_t', 'uint32_t')]
DYN_ALL = [fam_dyn.dinst('uint32_t', 'uint32_t'), fam_dyn.dinst('uint64_t', 'uint64_t'), fam_dyn.dinst('int64_t', 'uint32_t')]
DYN_NOTE = 'DynamicPGMIndex item type ItemA with arithmetic V (tombstone = numeric max); ItemB (flag) is not instantiated'
U('dyn_lower_bound_bl', fam_dyn, 'Dyn_lower_bound_bl', ['C05', 'C17'], decls=['dyn_ghost'], lemmas=['lemma_sorted'], insts=DYN_Q, thorough_insts=DYN_ALL[:2],
  spec=('dyn.spec',), assumptions=[DYN_NOTE])
U('dyn_find', fam_dyn, 'Dyn_find', ['C05', 'C16', 'C17'], inline=['Item_deleted', 'Dyn_level', 'Dyn_pgm', 'Dyn_has_pgm', 'Dyn_end'], stubs=['Dyn_lower_bound_bl'],
  assumed=['PGMType_search'], decls=['dyn_ghost', 'dyn_rank'], lemmas=['lemma_strict', 'lemma_absent', 'lemma_rank_item', 'lemma_pgm_built'],
  insts=DYN_Q, thorough_insts=DYN_ALL[:2], spec=('dyn.spec',), frame_ghost_only=True, assumptions=[DYN_NOTE, SEARCH_NOTE, 'at most 32 levels (the class allocates 32 - min_level level slots)'])
U('dyn_count', fam_dyn, 'Dyn_count', ['C05', 'C16', 'C17'], inline=['Dyn_end'], stubs=['Dyn_find'], decls=['dyn_ghost', 'dyn_rank'],
  insts=DYN_Q, thorough_insts=DYN_ALL[:2], spec=('dyn.spec',), frame_ghost_only=True,
  assumptions=[DYN_NOTE, 'find() replaced by its contract (discharged in unit dyn_find); Iterator::operator== hand-rendered over the (level, position) form of the iterator, guarded verbatim', 'at most 32 levels; the level number of the entry found differs from the pseudo level number levels.size()-1 that end() carries (in the real class the two iterators point into different vectors and never compare equal; the (level, position) rendering cannot express that)'])
U('dyn_ceil_log2', fam_dyn, 'Dyn_ceil_log2', ['C15', 'C17'], decls=['dyn_ghost'], insts=DYN_Q, spec=('dyn.spec',))
U('dyn_max_size', fam_dyn, 'Dyn_max_size', ['C15', 'C17'], inline=['Dyn_ceil_log2'], decls=['dyn_ghost'], insts=DYN_Q, spec=('dyn.spec',))

U('dyn_pairwise_merge', fam_dyn, 'Dyn_pairwise_merge', ['C15', 'C05', 'C17'], thorough_only_props=['C17', 'C05'], inline=['Dyn_level', 'Dyn_pgm', 'Dyn_has_pgm', 'Dyn_max_fully_allocated_level'],
  assumed=['Dyn_merge', 'pgmv_copy_Item', 'PGMType_build'], decls=['dyn_ghost', 'dyn_merge_ghost', 'dyn_mergeview'], lemmas=['lemma_merge_fits'],
  insts=DYN_Q, thorough_insts=DYN_ALL, spec=('dyn.spec',), timeout=1800, partition=16, mem_gb=12, defines=['NLEV=4'], solver='kissat',
  assumptions=[DYN_NOTE, 'quick tier: at most 4 used levels above the buffer (NLEV=4); the thorough tier runs the same contract with NLEV=32 = the size of the levels vector (unit dyn_pairwise_merge_full)', 'size accounting of the merge cascade (lemma_merge_fits) is established by insert (proved there as the C15 capacity assertion)'])
U('dyn_pairwise_merge_full', fam_dyn, 'Dyn_pairwise_merge', ['C15', 'C05', 'C17'], thorough_only_props=['C15', 'C05', 'C17'], inline=['Dyn_level', 'Dyn_pgm', 'Dyn_has_pgm', 'Dyn_max_fully_allocated_level'],
  assumed=['Dyn_merge', 'pgmv_copy_Item', 'PGMType_build'], decls=['dyn_ghost', 'dyn_merge_ghost', 'dyn_mergeview'], lemmas=['lemma_merge_fits'],
  insts=DYN_Q, spec=('dyn.spec',), timeout=3000, partition=16, mem_gb=12, defines=['NLEV=32'], solver='kissat',
  assumptions=[DYN_NOTE, 'levels enumerated: NLEV=32 = the size of the levels vector', 'size accounting of the merge cascade (lemma_merge_fits) is established by insert (proved there as the C15 capacity assertion)'])


# ---------------------------------------------------------------------------------------------------
# EliasFanoPGMIndex / BucketingPGMIndex
def uinst(k, extra=None):
    d = kinst(k)
    d = {'name': d['name'] + ('_' + extra[0] if extra else ''), 'defs': dict(d['defs'])}
    if extra:
        d['defs'].update(extra[1])
    return d


EF_Q = [uinst('uint64_t'), uinst('uint32_t')]
EF_ALL = [uinst(k) for k in ('uint64_t', 'uint32_t', 'uint16_t')]
U('ef_search', fam_ef, 'EF_search', ['C10', 'C16', 'C17'], assumed=['EF_pred', 'SegmentData_call'], decls=['ef_ghost', 'ef_ghost2'], macros=fam_ef.MACROS,
  insts=EF_Q, thorough_insts=EF_ALL, spec=('ef.spec',), frame_ghost_only=True,
  assumptions=[ACC_NOTE, 'pred() over the sdsl Elias-Fano encoding is replaced by its contract (rightmost segment at or before the key): [A]+[B]'])
U('ef_segmentdata_call', fam_ef, 'SegmentData_call', ['C10', 'C17'], decls=['ef_ghost', 'ef_ghost2'], insts=EF_Q, thorough_insts=EF_ALL, spec=('ef.spec',),
  defines=['PGMV_F2I_STRICT'], drop_checks=['--conversion-check'])
# the division variant (non power-of-two TopLevelSize: j = (key - first_key) / step) does not finish on any back end (minisat 600 s, kissat 1200 s:
# symbolic 32/64-bit division); only the shift variant is decided deductively, the division variant by the bounded link (DESIGN S.6)
BK_Q = [uinst('uint64_t', ('pow2', {'PGMV_POW_TWO_TOP_LEVEL': '1'})), uinst('uint32_t', ('pow2', {'PGMV_POW_TWO_TOP_LEVEL': '1'}))]
BK_ALL = [uinst(k, e) for k in ('uint64_t', 'uint32_t', 'uint16_t', 'uint8_t') for e in (('pow2', {'PGMV_POW_TWO_TOP_LEVEL': '1'}),)]
U('bucketing_search', fam_ef, 'Bucketing_search', ['C09', 'C16', 'C17'], stubs=['Bucketing_segment_for_key'], assumed=['Segment_call'],
  decls=['ef_ghost', 'ef_ghost2', 'bucketing_ghost', 'bucketing_table'], macros=fam_ef.MACROS, insts=BK_Q, thorough_insts=BK_ALL, spec=('ef.spec',),
  frame_ghost_only=True, assumptions=[ACC_NOTE])
U('bucketing_segment_for_key', fam_ef, 'Bucketing_segment_for_key', ['C09', 'C16', 'C17'], decls=['ef_ghost', 'ef_ghost2', 'bucketing_ghost', 'bucketing_table'],
  lemmas=['IntVector_get', 'lemma_segments_sorted', 'pgmv_upper_bound_Segment'], macros=fam_ef.MACROS, insts=BK_Q, thorough_insts=BK_ALL, spec=('ef.spec',),
  assumptions=['C09 table invariant instance for the key\'s bucket is a precondition (established by build_top_level: checked by the bounded link only)',
               'sdsl::int_vector cell read [A]'])


U('bucketing_build_top_level', fam_ef, 'Bucketing_build_top_level', ['C09', 'C17', 'C20'], decls=['ef_ghost', 'bucketing_ghost', 'bucketing_builder'],
  lemmas=['IntVector_make', 'IntVector_set'], macros=fam_ef.MACROS + [(fam_ef.HPP, 'CEIL_INT_DIV')], insts=BK_Q[:1], spec=('ef.spec',),
  cases=[('BK_T', str(1 << e)) for e in range(1, 13)], timeout=900, mem_gb=8,
  assumptions=['proved per concrete power-of-two TopLevelSize in {2,4,...,4096} (constant step); the division variant is not attempted (S.6)',
               'sdsl::int_vector construction / cell write replaced by assumed contracts over a witness cell [A]; segment keys strictly increasing (lemma, established by build)'])

U('lemma_bucketing_table', fam_ef, 'lemma_bucketing_table', ['C09'], lemma_only=True, decls=['ef_ghost', 'ef_ghost2', 'bucketing_ghost', 'bucketing_table', 'bucketing_builder', 'bucketing_link_lemma'],
  target_sig='void lemma_bucketing_table(const Bucketing *self, K key, size_t j, size_t tj, size_t tj1, size_t resp, size_t ncells)', lemmas=['lemma_segments_sorted'],
  insts=BK_Q, spec=('ef.spec',),
  assumptions=['a lemma over contracts (spec text, no repository code): links the cell facts proved for build_top_level to the precondition of the search side; symbolic power-of-two TopLevelSize 2..4096',
               'segment keys strictly increasing (lemma, established by build)'])

# ---------------------------------------------------------------------------------------------------
# CompressedPGMIndex: level accessors (search/ctor/merge_slopes: bounded native link)
CP_Q = [uinst('uint64_t'), uinst('uint32_t')]
for fn, inl in (('CompressedLevel_size', []), ('CompressedLevel_get_intercept', []), ('CompressedLevel_get_slope', []),
                ('CompressedLevel_call', ['CompressedLevel_get_slope', 'CompressedLevel_get_intercept'])):
    U('compressed_' + fn[len('CompressedLevel_'):], fam_compressed, fn, ['C08', 'C17'], inline=inl, decls=['compressed_ghost'], lemmas=['IntVector_get', 'Select1_call'],
      insts=CP_Q, spec=('compressed.spec',), defines=['PGMV_F2I_STRICT'], drop_checks=['--conversion-check'] if fn == 'CompressedLevel_call' else [],
      assumptions=['sdsl int_vector / select_1 are replaced by assumed contracts [A]', 'WF_compressed (slopes_map cells index the slopes table, select defined for 1..size) is a precondition'])


U('compressed_search', fam_compressed, 'Compressed_search', ['C08', 'C16', 'C17'], assumed=['CompressedLevel_call', 'CompressedLevel_get_intercept', 'CompressedLevel_size'],
  decls=['compressed_ghost', 'compressed_search_ghost', 'std_bounds_K'], lemmas=['lemma_clevel', 'lemma_clevel_sorted', 'lemma_cresp', 'lemma_root_acc', 'pgmv_upper_bound_K'],
  macros=fam_compressed.MACROS, insts=CP_Q[:1], thorough_insts=CP_Q, spec=('compressed.spec', 'mapped.spec'), defines=['PGMV_F2I_STRICT', 'CLMAX=8'], drop_checks=['--conversion-check'],
  cases=[('PGMV_CASE', '0'), ('PGMV_CASE', '1'), ('PGMV_CASE', '2')], timeout=1500, partition=16, mem_gb=10, thorough_only_props=['C16', 'C17'],
  assumptions=[ACC_NOTE, 'WF_compressed per level (keys strictly increasing, first key = first_key, sentinel last, responsible segment exists) through lemma contracts [B: established by the constructor, bounded link]',
               'ACC of the root line is an assumed lemma on the computed value (the floating-point evaluation itself is only checked for undefined conversions)',
               'at most 8 levels below the root, each with its own fresh key array (enumerated in the precondition: a bound on the height of the index, not on n, the level sizes or the epsilons)'])

# ---------------------------------------------------------------------------------------------------
# OptimalPiecewiseLinearModel: control part + guards
PLM_Q = [fam_plm.pinst('uint64_t'), fam_plm.pinst('int32_t', 'int32_t')]
U('oplm_ctor', fam_plm, 'OPLM_ctor', ['C20', 'C17'], decls=['plm_ghost'], insts=PLM_Q, spec=('plm.spec',))
U('oplm_reset', fam_plm, 'OPLM_reset', ['C03', 'C17'], decls=['plm_ghost'], insts=PLM_Q[:1], spec=('plm.spec',))
U('oplm_add_point', fam_plm, 'OPLM_add_point', ['C20', 'C03', 'C17'], assumed=['Slope_lt', 'Slope_gt', 'OPLM_cross'], decls=['plm_ghost'], insts=PLM_Q[:1], thorough_insts=PLM_Q, thorough_only_props=['C17'], spec=('plm.spec',),
  defines=['PGMV_STUB_SLOPE_CMP'], timeout=1800, partition=24, mem_gb=10, solver='kissat',
  assumptions=['Slope comparisons / cross products are replaced by unconstrained stubs: the control and memory-safety obligations hold for every outcome of the geometry',
               'geo-1/geo-2 (epsilon-accuracy and maximality of the hull) are checked only by the bounded native link'])

# md_bigmin: contract kept in spec/md.spec; under dfcc every case ran out of memory; as a plain harness proof (spec decl bigmin_harness) one of 64 highest-bit cases takes > 5 min and
# needs a bit-level model of the _pdep_u64 intrinsic: not registered - bigmin stays an assumed contract of md_advance (DESIGN S.4)

U('dyn_item_ctor', fam_dyn, 'Item_ctor', ['C20', 'C17'], decls=['dyn_ghost'], insts=DYN_Q, thorough_insts=DYN_ALL, spec=('dyn.spec',), assumptions=[DYN_NOTE])
U('dyn_ctor', fam_dyn, 'Dyn_ctor', ['C20', 'C15', 'C17'], inline=['Dyn_ceil_log2', 'Dyn_ceil_log_base', 'Dyn_max_size', 'Dyn_level', 'Dyn_max_fully_allocated_level'],
  decls=['dyn_ghost'], insts=DYN_Q, spec=('dyn.spec',), timeout=1200, assumptions=[DYN_NOTE, 'buffer_level <= 4 (larger values overflow max_size by design of the class)'])


# ---------------------------------------------------------------------------------------------------
# make_segmentation: FEED contract
FEED_NOTE = 'OPLM control contract (first point accepted, refusal closes the segment, acceptance counted) is assumed here; it is the contract written for add_point in spec/plm.spec'
PLM_K = [fam_plm.pinst('uint64_t'), fam_plm.pinst('int64_t')]
U('ms_add_point', fam_plm, 'make_segmentation__add_point', ['C03', 'C02', 'C17'], extract_from='make_segmentation',
  target_sig='void make_segmentation__add_point(size_t *c, OPLM *opt, X x, size_t y)', assumed=['OPLM_add_point', 'OPLM_get_segment', 'ms_out', 'OPLM_ctor'],
  decls=['plm_ghost', 'feed_ghost', 'feed_ghost2'], insts=PLM_K[:1], spec=('plm.spec',), assumptions=[FEED_NOTE])
U('make_segmentation', fam_plm, 'make_segmentation', ['C02', 'C03', 'C17'], thorough_only_props=['C17'], attach=['make_segmentation__add_point'], assumed=['OPLM_ctor', 'OPLM_get_segment', 'ms_out', 'OPLM_add_point'],
  decls=['plm_ghost', 'feed_ghost', 'feed_ghost2'], lemmas=['lemma_in_sorted'], insts=PLM_K[:1], thorough_insts=PLM_K, spec=('plm.spec',), timeout=1800, partition=24, mem_gb=10,
  assumptions=[FEED_NOTE, 'integer keys (the floating-point branch with nextafter is compiled but dead for the instantiated key types)'])

U('make_segmentation_par', fam_plm, 'make_segmentation_par', ['CXX_not_registered_yet'], stubs=['make_segmentation'],
  assumed=['make_segmentation4', 'ms_out2', 'pgmv_omp_get_num_procs', 'pgmv_omp_get_max_threads'], decls=['plm_ghost', 'feed_ghost', 'feed_ghost2', 'par_ghost'],
  lemmas=['lemma_in_sorted'], insts=PLM_K[:1], spec=('plm.spec',), timeout=900, partition=16, mem_gb=12, unwind=22, mode='W', solver='kissat',
  cases=[('PGMV_PAR', str(p_)) for p_ in (2, 3, 16, 20)], drop_checks=['--conversion-check'],
  assumptions=[FEED_NOTE, 'width-complete per case: the chunk loop is unwound for a fixed number of chunks (cases 2, 3, 16, 20 quick; the duplicate-skipping loop is closed by a loop contract)',
               'OpenMP: the parallel loop is verified as a sequential loop (iterations write disjoint results[i] and a reduction variable)'])


# ---------------------------------------------------------------------------------------------------
# C interface: PGMWrapper::search
U('cwrap_search', fam_cwrap, 'PGMWrapper_search', ['C18', 'C17'], assumed=['PGMWrapper_segment_for_key', 'Segment_call'], decls=['cwrap_ghost', 'cwrap_ghost2'],
  macros=fam_cwrap.MACROS, insts=[kinst('uint64_t'), kinst('int32_t')], thorough_insts=[kinst(k) for k in ('int32_t', 'int64_t', 'uint32_t', 'uint64_t')],
  spec=('cwrap.spec',), assumptions=[ACC_NOTE, 'the inherited segment_for_key is replaced by the contract proved in unit pgmindex_segment_for_key',
                                     'the macro-generated extern "C" functions (create/destroy/forwarding) are not under contract'])

U('dyn_merge', fam_dyn, 'Dyn_merge', ['C05', 'C17'], thorough_only_props=['C17'], inline=['Item_deleted'], assumed=['pgmv_copy_Item'], decls=['dyn_ghost', 'dyn_mergeview'],
  lemmas=['lemma_strict2', 'lemma_absent2'], insts=DYN_Q, thorough_insts=DYN_ALL, spec=('dyn.spec',), timeout=1500, partition=16, mem_gb=10, solver='kissat', cases=[('PGMV_CASE', '0'), ('PGMV_CASE', '2')],
  assumptions=[DYN_NOTE, 'quick tier: cases 0 (both runs non-empty, second run from index 0) and 2 (an empty run); case 1 (second run a proper slice, as range() calls it) needs 20 min and runs in the thorough tier as unit dyn_merge_slice', 'range std::move / std::copy replaced by an element-wise copy contract [A]', 'the first run and the output start at index 0 (as in pairwise_merge and range()); the second run may be a slice [first2,last2)'])
U('dyn_merge_slice', fam_dyn, 'Dyn_merge', ['C05', 'C17'], thorough_only_props=['C05', 'C17'], inline=['Item_deleted'], assumed=['pgmv_copy_Item'], decls=['dyn_ghost', 'dyn_mergeview'],
  lemmas=['lemma_strict2', 'lemma_absent2'], insts=DYN_Q, spec=('dyn.spec',), timeout=3000, partition=16, mem_gb=10, solver='kissat', cases=[('PGMV_CASE', '1')],
  assumptions=[DYN_NOTE, 'range std::move / std::copy replaced by an element-wise copy contract [A]', 'the first run and the output start at index 0 (as in pairwise_merge and range()); the second run may be a slice [first2,last2)'])


# ---------------------------------------------------------------------------------------------------
# C04 / C07: segments_count() and the counting lemma (per concrete epsilon)
U('pgmindex_segments_count', fam_pgm, 'PGMIndex_segments_count', ['C04', 'C17'], decls=['pgm_ghost'], insts=QUICK_K[:1], spec=('pgm.spec',),
  harness='void pgmv_harness(void)\n{\n  const PGMIndex *self;\n  __CPROVER_assume(__CPROVER_r_ok(self, sizeof(*self)));\n  PGMIndex_segments_count(self);\n}\n' if False else None)
U('lemma_counting', fam_pgm, 'lemma_counting', ['C04', 'C07'], lemma_only=True, decls=['pgm_ghost', 'counting_lemma'], insts=QUICK_K[:1], spec=('pgm.spec',),
  target_sig='size_t lemma_counting(const size_t *s, const uint8_t *ch, size_t m, size_t n, uint8_t c, size_t g_k)',
  cases=[('LEMMA_EPS', str(e)) for e in (0, 1, 4, 16, 64, 128, 1024)], canary=False,
  assumptions=['a lemma over contracts (spec text, no repository code): premises = consecutive starts inside a chunk are > 2*eps ranks apart (geo-2 maximality, bounded link) ',
               'proved per concrete epsilon in {0,1,4,16,64,128,1024} (division by a constant); symbolic epsilon is not attempted'])

U('md_ctor', fam_md, 'RangeIterator_ctor', ['C13', 'C17', 'C16'], inline=['MD_box_zcontains_field', 'MD_box_zcontains'], stubs=['RangeIterator_advance'],
  assumed=['PGMIndexT_search', 'morton_Decode', 'MD_encode'], decls=['md_ghost', 'std_bounds_T'],
  lemmas=['lemma_data_sorted', 'lemma_rank', 'lemma_box_range', 'pgmv_lower_bound_T'], insts=MD_Q, thorough_insts=MD_ALL, spec=('md.spec',),
  assumptions=[MD_NOTE, SEARCH_NOTE], timeout=1200)

U('dyn_insert', fam_dyn, 'Dyn_insert', ['C15', 'C17'], inline=['Dyn_level', 'Dyn_max_size', 'Dyn_ceil_log2'], stubs=['Dyn_lower_bound_bl'], assumed=['Dyn_pairwise_merge'],
  decls=['dyn_ghost', 'dyn_merge_ghost', 'dyn_insert_ghost'], lemmas=['lemma_level_size', 'vec_Item_insert'], insts=DYN_Q, spec=('dyn.spec',), timeout=1800, partition=16, mem_gb=8, solver='kissat', defines=['NLEV=32'],
  assumptions=[DYN_NOTE, 'std::vector::insert / emplace_back of the level vectors replaced by assumed contracts [A]', 'at most 32 used levels above the buffer (NLEV=32 = the size of the levels vector, enumerated fresh level arrays); (used_levels+1)*log2(base) <= 50 (sizes below 2^50); constant vector capacities'])

U('mapped_serialize', fam_mapped, 'Mapped_serialize_and_map', ['C12', 'C17'], assumed=['pgmv_fstream_open', 'pgmv_fstream_seekp', 'pgmv_write_member', 'pgmv_write_container', 'pgmv_map_file'],
  decls=['mapped_ghost', 'ser_ghost'], insts=[kinst('uint64_t'), kinst('int32_t')], thorough_insts=MAPPED_ALL, spec=('mapped.spec',), timeout=900, drop_checks=['--conversion-check'],
  assumptions=['std::fstream write/seekp and mmap are replaced by logging stubs [A]: a write advances the stream by the size written; map_file exposes the file',
               'the constructors (field initialisation, build, the order of calls) and the load constructor are not under contract: bounded link mapped_files_link'])

U('mapped_roundtrip', fam_mapped, 'pgmv_harness', ['C12', 'C17'], inline=['Mapped_serialize_and_map'], extract_from='Mapped_load_ctor', plain=True, harness='@decl:roundtrip_harness',
  decls=['mapped_ghost', 'ser_ghost', 'roundtrip_stubs'], insts=[kinst('uint64_t'), kinst('int32_t')], thorough_insts=MAPPED_ALL, spec=('mapped.spec',), timeout=900, drop_checks=['--conversion-check'],
  assumptions=['harness proof, not a per-function contract: a ghost harness calls the two real bodies (serialize_and_map, then the loading constructor) on fully symbolic inputs and asserts the round trip; the key loop is closed by its loop contract, everything else is loop-free',
               'std::fstream read/write/seekp and mmap are replaced by stub bodies over a two-offset file model [A]: the file is observed at two universally quantified offsets; header writes do not partially overlap',
               'the element bytes of the two vectors and the construction paths before serialize_and_map (build, first_key, n) are outside this unit: bounded link mapped_files_link'])

U('dyn_range', fam_dyn, 'Dyn_range', ['C06', 'C20', 'C17'], thorough_only_props=['C06', 'C20', 'C17'], inline=['Item_deleted', 'Dyn_level', 'Dyn_pgm', 'Dyn_has_pgm'], stubs=['Dyn_lower_bound_bl', 'Dyn_merge'],
  assumed=['PGMType_search'], decls=['dyn_ghost', 'dyn_rank', 'dyn_mergeview', 'dyn_range_ghost'],
  lemmas=['lemma_strict2', 'lemma_absent2', 'lemma_rank_item', 'lemma_pgm_built', 'lemma_level_pos', 'pgmv_upper_bound_Item'],
  insts=DYN_Q, spec=('dyn.spec',), timeout=2400, partition=16, mem_gb=24, defines=['NLEV=12', 'PGMV_LOCAL_VEC_CAP', 'FL_MAXSZ=((size_t)1<<30)'],
  assumptions=[DYN_NOTE, SEARCH_NOTE, 'thorough tier only (about 30 minutes, 43 M clauses and up to 7 GB per obligation group, four solver processes at a time); at most 12 used levels above the buffer (NLEV=12; 32 runs out of memory), levels of at most 2^30 entries', 'local vectors are modelled with an arbitrary (symbolic) capacity fixed at construction, so that growing calls never reallocate [A: equivalent to std::vector here: no iterator is held across a growing call]; both loops are closed by loop contracts',
               'one ghost prophecy variable (which entry of the merged run ends up at the witness result index), resolved by an assume in ghost code: does not restrict the real execution'])
