"""Family `plm`: OptimalPiecewiseLinearModel / CanonicalSegment / make_segmentation (include/pgm/piecewise_linear_model.hpp): C03, C04, C20."""
from unit import Family, ClassDesc, FuncDesc
from emit import FuncInfo

HPP = 'include/pgm/piecewise_linear_model.hpp'

FAMILY = Family(
    'plm',
    typemap={'X': 'X', 'Y': 'Y', 'SX': 'SX', 'SY': 'SY', 'K': 'X', 'Point': 'Point', 'Slope': 'Slope', 'CanonicalSegment': 'CanonicalSegment',
             'std::vector<Point>': 'Vec<Point>'},
    classes=[
        ClassDesc('Slope', HPP, 'Slope'),
        ClassDesc('Point', HPP, 'Point'),
        ClassDesc('OPLM', HPP, 'OptimalPiecewiseLinearModel', field_types={'rectangle': 'Point'},
                  methods={'cross': 'OPLM_cross', 'add_point': 'OPLM_add_point', 'get_segment': 'OPLM_get_segment', 'reset': 'OPLM_reset'}),
        ClassDesc('CanonicalSegment', HPP, 'CanonicalSegment', ordinal=0, field_types={'rectangle': 'Point'}),
    ],
    ops={('Point', '-', 'Point'): ('Slope', 'Point_sub'), ('Slope', '<', 'Slope'): ('bool', 'Slope_lt'), ('Slope', '>', 'Slope'): ('bool', 'Slope_gt'),
         ('Slope', '==', 'Slope'): ('bool', 'Slope_eq'), ('Slope', '!=', 'Slope'): ('bool', 'Slope_ne')},
    funcs={'make_segmentation/6': FuncInfo('make_segmentation', 'size_t'), 'make_segmentation/4': FuncInfo('make_segmentation4', 'size_t'),
           'omp_get_num_procs': FuncInfo('pgmv_omp_get_num_procs', 'int'), 'omp_get_max_threads': FuncInfo('pgmv_omp_get_max_threads', 'int')},
    struct_methods={('CanonicalSegment', 'CanonicalSegment'): FuncInfo('CanonicalSegment_make', 'CanonicalSegment'), ('OPLM', 'OPLM'): FuncInfo('OPLM_ctor', 'void')},
    typenames={'X', 'Y', 'SX', 'SY', 'Point', 'Slope', 'CanonicalSegment', 'K'},
    templates={'OptimalPiecewiseLinearModel'},
    verbatim=[(HPP, 'Slope', 0, 'operator<', 0, 'return dy * p.dx < dx * p.dy;'), (HPP, 'Slope', 0, 'operator>', 0, 'return dy * p.dx > dx * p.dy;'),
              (HPP, 'Slope', 0, 'operator==', 0, 'return dy * p.dx == dx * p.dy;'), (HPP, 'Slope', 0, 'operator!=', 0, 'return dy * p.dx != dx * p.dy;'),
              (HPP, 'Point', 0, 'operator-', 0, 'return {SX(x) - p.x, SY(y) - p.y};')],
)
FUNCS = {}


def F(*a, **kw):
    fd = FuncDesc(*a, **kw)
    FUNCS[fd.key] = fd
    return fd


F('OPLM_ctor', HPP, 'OptimalPiecewiseLinearModel', 'void OPLM_ctor(OPLM *self, Y epsilon)', cls='OptimalPiecewiseLinearModel', self_cls='OPLM', ret='void',
  params={'epsilon': 'Y'}, must_fire=('throw', 'ctor_init_list'))
F('OPLM_add_point', HPP, 'add_point', '_Bool OPLM_add_point(OPLM *self, X x, Y y)', cls='OptimalPiecewiseLinearModel', self_cls='OPLM', ret='bool',
  params={'x': 'X', 'y': 'Y'}, must_fire=('throw', 'operator_call', 'numeric_limits'))
F('OPLM_cross', HPP, 'cross', 'SY OPLM_cross(const OPLM *self, const Point *O, const Point *A, const Point *B)', cls='OptimalPiecewiseLinearModel', self_cls='OPLM',
  ret='SY', params={'O': 'Ref<Point>', 'A': 'Ref<Point>', 'B': 'Ref<Point>'}, params_complete=True)
F('OPLM_reset', HPP, 'reset', 'void OPLM_reset(OPLM *self)', cls='OptimalPiecewiseLinearModel', self_cls='OPLM', ret='void')
F('make_segmentation', HPP, 'make_segmentation', 'size_t make_segmentation(size_t n, size_t start, size_t end, size_t epsilon, const X *in_data)', ret='size_t', ordinal=0,
  params={'n': 'size_t', 'start': 'size_t', 'end': 'size_t', 'epsilon': 'size_t'}, env={'in': 'Fn:IN_AT@in_data', 'out': 'Fn:ms_out@'},
  typemap={'OptimalPiecewiseLinearModel<K, size_t>': 'OPLM', 'OptimalPiecewiseLinearModel<K,size_t>': 'OPLM'},
  lambdas={'add_point': {'ret': 'void', 'params': {'x': 'X', 'y': 'size_t'}}},
  must_fire=('lambda_lift', 'lambda_call', 'callback', 'if_constexpr', 'type_trait'))
F('make_segmentation_par', HPP, 'make_segmentation_par', 'size_t make_segmentation_par(size_t n, size_t epsilon, const X *in_data)', ret='size_t',
  params={'n': 'size_t', 'epsilon': 'size_t'}, env={'in': 'Fn:IN_AT@in_data', 'out': 'Fn:ms_out2@'},
  typemap={'canonical_segment': 'CanonicalSegment', 'std::vector<std::vector<canonical_segment>>': 'Vec<vec_CanonicalSegment>'},
  lambdas={'in_fun': {'alias': 'Fn:IN_AT@in_data'}, 'out_fun': {'alias': 'Fn:ms_out@'}},
  must_fire=('lambda_alias', 'drop_pragma_omp', 'function_call', 'range_for'))
FUNCS['pgmv_omp_get_num_procs'] = FuncDesc('pgmv_omp_get_num_procs', HPP, 'omp', 'int pgmv_omp_get_num_procs(void)', ret='int')
FUNCS['pgmv_omp_get_max_threads'] = FuncDesc('pgmv_omp_get_max_threads', HPP, 'omp', 'int pgmv_omp_get_max_threads(void)', ret='int')
FUNCS['make_segmentation4'] = FuncDesc('make_segmentation4', HPP, 'make_segmentation', 'size_t make_segmentation4(size_t n, size_t epsilon, const X *in_data)', ret='size_t')
FUNCS['ms_out2'] = FuncDesc('ms_out2', HPP, 'out', 'void ms_out2(CanonicalSegment cs)', ret='void')
FUNCS['ms_out'] = FuncDesc('ms_out', HPP, 'out', 'void ms_out(CanonicalSegment cs)', ret='void')
FUNCS['Slope_lt'] = FuncDesc('Slope_lt', HPP, 'operator<', '_Bool Slope_lt(Slope a, Slope p)', ret='bool')
FUNCS['Slope_gt'] = FuncDesc('Slope_gt', HPP, 'operator>', '_Bool Slope_gt(Slope a, Slope p)', ret='bool')
FUNCS['OPLM_get_segment'] = FuncDesc('OPLM_get_segment', HPP, 'get_segment', 'CanonicalSegment OPLM_get_segment(OPLM *self)', ret='CanonicalSegment')

PRELUDE = r'''
#include <math.h>
PGMV_DEF_MINMAX(X)
/* Point / Slope operators of the class, rendered by value (they are one-line expressions; Slope comparisons are exact cross products) */
'''
OPS = r'''
static inline Slope Point_sub(Point a, Point b) { Slope s; s.dx = (SX)a.x - (SX)b.x; s.dy = (SY)a.y - (SY)b.y; return s; }
#ifndef PGMV_STUB_SLOPE_CMP
static inline _Bool Slope_lt(Slope a, Slope p) { return a.dy * p.dx < a.dx * p.dy; }
static inline _Bool Slope_gt(Slope a, Slope p) { return a.dy * p.dx > a.dx * p.dy; }
#endif
static inline _Bool Slope_eq(Slope a, Slope p) { return a.dy * p.dx == a.dx * p.dy; }
static inline _Bool Slope_ne(Slope a, Slope p) { return a.dy * p.dx != a.dx * p.dy; }
'''
LAYOUT = ['struct:Slope', 'struct:Point', 'vec:Point', 'struct:OPLM', 'struct:CanonicalSegment', 'vec:CanonicalSegment', 'vec:vec_CanonicalSegment', 'text:OPS']
MACROS = []


def pinst(x, y='size_t'):
    sx = 'int64_t' if x in ('uint32_t', 'int32_t', 'uint16_t', 'int16_t', 'uint8_t', 'int8_t') else '__int128'
    lim = {'uint32_t': ('UINT32_MAX', '0'), 'uint64_t': ('UINT64_MAX', '0'), 'int64_t': ('INT64_MAX', 'INT64_MIN'), 'int32_t': ('INT32_MAX', 'INT32_MIN')}[x]
    return {'name': '%s_%s' % (x, y), 'defs': {'X': x, 'Y': y, 'SX': sx, 'SY': '__int128' if y == 'size_t' else 'int64_t',
                                                'PGMV_LIMITS_X_max': lim[0], 'PGMV_LIMITS_X_lowest': lim[1], 'PGMV_LIMITS_X_infinity': '((X)0)',
                                                'PGMV_LIMITS_Y_max': 'SIZE_MAX' if y == 'size_t' else 'INT32_MAX', 'PGMV_LIMITS_Y_lowest': '((Y)0)' if y == 'size_t' else 'INT32_MIN'}}
