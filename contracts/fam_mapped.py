"""Family `mapped`: MappedPGMIndex query side (include/pgm/pgm_index_variants.hpp), C11 / C16 / C17."""
from unit import Family, ClassDesc, FuncDesc
from emit import FuncInfo

HPP = 'include/pgm/pgm_index_variants.hpp'
KEYS = 'Mapped_begin(self)'

FAMILY = Family(
    'mapped',
    typemap={'K': 'K', 'ApproxPos': 'ApproxPos', 'Segment': 'Segment', 'Floating': 'Floating'},
    classes=[ClassDesc('Segment', 'include/pgm/pgm_index.hpp', 'Segment', packed=True), ClassDesc('Mapped', HPP, 'MappedPGMIndex', base_struct='PGMBase', field_types={'data': 'Ptr<K>'},
                       methods={'begin': 'Mapped_begin', 'end': 'Mapped_end', 'size': 'Mapped_size', 'search': 'Mapped_search',
                                'lower_bound': 'Mapped_lower_bound', 'upper_bound': 'Mapped_upper_bound', 'count': 'Mapped_count',
                                'contains': 'Mapped_contains', 'write_member': 'pgmv_write_member', 'write_container': 'pgmv_write_container', 'map_file': 'pgmv_map_file', 'read_member': 'pgmv_read_member', 'read_container': 'pgmv_read_container'})],
    extra_structs={'ApproxPos': {'pos': 'size_t', 'lo': 'size_t', 'hi': 'size_t'}, 'PGMBase': {'n': 'size_t', 'first_key': 'K', 'segments': 'Vec<Segment>', 'levels_offsets': 'Vec<size_t>'}, 'FStream': {'pos': 'size_t'}},
    funcs={'std::fstream': FuncInfo('pgmv_fstream_open', 'FStream')},
    struct_methods={('FStream', 'seekp'): FuncInfo('pgmv_fstream_seekp', 'void')},
    typenames={'K'},
)
FUNCS = {}


def F(*a, **kw):
    fd = FuncDesc(*a, **kw)
    FUNCS[fd.key] = fd
    return fd


F('Mapped_begin', HPP, 'begin', 'K *Mapped_begin(const Mapped *self)', cls='MappedPGMIndex', self_cls='Mapped', ret='It<K>', ret_base=KEYS, as_base=True)
F('Mapped_size', HPP, 'size', 'size_t Mapped_size(const Mapped *self)', cls='MappedPGMIndex', self_cls='Mapped', ret='size_t')
F('Mapped_end', HPP, 'end', 'size_t Mapped_end(const Mapped *self)', cls='MappedPGMIndex', self_cls='Mapped', ret='It<K>', ret_base=KEYS)
F('Mapped_lower_bound', HPP, 'lower_bound', 'size_t Mapped_lower_bound(const Mapped *self, K key)', cls='MappedPGMIndex', self_cls='Mapped', ret='It<K>', ret_base=KEYS,
  params={'key': 'K'}, must_fire=('std_lower_bound',))
F('Mapped_upper_bound', HPP, 'upper_bound', 'size_t Mapped_upper_bound(const Mapped *self, K key)', cls='MappedPGMIndex', self_cls='Mapped', ret='It<K>', ret_base=KEYS,
  params={'key': 'K'}, must_fire=('std_upper_bound',))
F('Mapped_count', HPP, 'count', 'size_t Mapped_count(const Mapped *self, K key)', cls='MappedPGMIndex', self_cls='Mapped', ret='size_t', params={'key': 'K'},
  must_fire=('std_distance',))
F('Mapped_contains', HPP, 'contains', '_Bool Mapped_contains(const Mapped *self, K key)', cls='MappedPGMIndex', self_cls='Mapped', ret='bool', params={'key': 'K'},
  must_fire=('std_binary_search',))
F('Mapped_serialize_and_map', HPP, 'serialize_and_map', 'void Mapped_serialize_and_map(Mapped *self, const K *keys, size_t first, size_t last, const char *out_filename)',
  cls='MappedPGMIndex', self_cls='Mapped', ret='void', params={'first': 'It<K>', 'last': 'It<K>', 'out_filename': 'Ptr<char>'}, bases={'first': 'keys', 'last': 'keys'},
  consts={'std::ios::out': ('PGMV_IOS_OUT', 'int'), 'std::ios::binary': ('PGMV_IOS_BINARY', 'int')})
FUNCS['pgmv_write_member'] = FuncDesc('pgmv_write_member', HPP, 'write_member', 'size_t pgmv_write_member(uint64_t value, size_t size, FStream *out)', ret='size_t', static=True,
                                      template='pgmv_write_member((uint64_t)(%a0), sizeof(%a0), %p1)')
FUNCS['pgmv_write_container'] = FuncDesc('pgmv_write_container', HPP, 'write_container', 'size_t pgmv_write_container(size_t count, size_t elem_size, FStream *out)', ret='size_t', static=True,
                                         template='pgmv_write_container(%a0.size, sizeof(*%a0.data), %p1)')
F('Mapped_load_ctor', HPP, 'MappedPGMIndex', 'void Mapped_load_ctor(Mapped *self, const char *in_filename)', cls='MappedPGMIndex', self_cls='Mapped', ordinal=2, ret='void',
  params={'in_filename': 'Ptr<char>'}, ctor_init={'base': 'PGMBase_value_init'}, must_fire=('ctor_init_list',),
  consts={'std::ios::in': ('PGMV_IOS_IN', 'int'), 'std::ios::binary': ('PGMV_IOS_BINARY', 'int')})
FUNCS['PGMBase_value_init'] = FuncDesc('PGMBase_value_init', HPP, 'base', 'void PGMBase_value_init(Mapped *self)', ret='void')
FUNCS['pgmv_read_member'] = FuncDesc('pgmv_read_member', HPP, 'read_member', 'void pgmv_read_member(void *dst, size_t size, FStream *in)', ret='void', static=True,
                                     template='pgmv_read_member_%T0(&(%a0), %p1)')
FUNCS['pgmv_read_member_size_t'] = FuncDesc('pgmv_read_member_size_t', HPP, 'read_member', 'void pgmv_read_member_size_t(size_t *dst, FStream *in)', ret='void', static=True)
FUNCS['pgmv_read_member_K'] = FuncDesc('pgmv_read_member_K', HPP, 'read_member', 'void pgmv_read_member_K(K *dst, FStream *in)', ret='void', static=True)
FUNCS['pgmv_read_container'] = FuncDesc('pgmv_read_container', HPP, 'read_container', 'void pgmv_read_container(size_t *count, size_t elem_size, FStream *in)', ret='void', static=True,
                                        template='pgmv_read_container(&%a0.size, sizeof(*%a0.data), %p1)')
FUNCS['pgmv_map_file'] = FuncDesc('pgmv_map_file', HPP, 'map_file', 'K *pgmv_map_file(const char *filename, size_t file_bytes)', ret='Ptr<K>', static=True)
FUNCS['pgmv_fstream_open'] = FuncDesc('pgmv_fstream_open', HPP, 'fstream', 'FStream pgmv_fstream_open(const char *filename, int mode)', ret='FStream')
FUNCS['pgmv_fstream_seekp'] = FuncDesc('pgmv_fstream_seekp', HPP, 'seekp', 'void pgmv_fstream_seekp(FStream *out, size_t pos)', ret='void')
FUNCS['Mapped_search'] = FuncDesc('Mapped_search', HPP, 'search', 'ApproxPos Mapped_search(const Mapped *self, K key)', ret='ApproxPos')

PRELUDE = 'PGMV_DEF_MINMAX(K)\ntypedef struct { size_t pos; size_t lo; size_t hi; } ApproxPos;\ntypedef struct { size_t pos; } FStream;   /* std::fstream: only the stream position is modelled [A] */\n#define PGMV_IOS_OUT 1\n#define PGMV_IOS_BINARY 2\n#define PGMV_IOS_IN 4\n'
LAYOUT = ['struct:Segment', 'vec:Segment', 'vec:size_t', 'struct:Mapped']
MACROS = []
