// Bounded native link for C03 / C04: the REAL segmentation builder judged by an exact 128-bit rational oracle.
//   C03: segments in increasing first-key order, every fed point covered by exactly one segment, the segment's extreme line within
//        epsilon of every covered point (exact), the reported (slope, intercept) within epsilon + 1/2 (integer keys).
//   C04: maximality: no line is within epsilon (band clamped at rank 0) of a segment's points plus the first point of the next one,
//        decided by an independent feasibility test (lines through pairs of band end-points).
// The points the builder commits to are recorded through the guarded hook PGM_INDEX_VERIF_ADD_POINT.
#include <cstdint>
#include <cstddef>
#include <vector>
#include <utility>
static std::vector<std::pair<__int128, __int128>> g_fed;
#define PGM_INDEX_VERIF_ADD_POINT(x, y) do { _Pragma("omp critical (pgmv_fed)") g_fed.push_back({(__int128)(x), (__int128)(y)}); } while (0)
#include <algorithm>
#include <omp.h>
#include "common.hpp"
#include "pgm/piecewise_linear_model.hpp"

namespace pgm::verif {
struct Access {
    template<class CS> static auto &rect(const CS &cs) { return cs.rectangle; }
};
}
using I = __int128;
static vl::Report R;

struct Pt { I x, y; };

// exists a line within eps of all points (lower band clamped at 0)?  candidate lines: through an upper band point of i and a lower band point of j
static bool feasible(const std::vector<Pt> &p, I eps) {
    size_t m = p.size();
    if (m <= 2) return true;
    auto up = [&](size_t i) { return p[i].y + eps; };
    auto lo = [&](size_t i) { I v = p[i].y - eps; return v < 0 ? I(0) : v; };
    for (size_t i = 0; i < m; ++i)
        for (size_t j = 0; j < m; ++j) {
            if (i == j) continue;
            for (int kind = 0; kind < 4; ++kind) {
                // line through (xi, a) and (xj, b)
                I a = (kind & 1) ? up(i) : lo(i), b = (kind & 2) ? up(j) : lo(j);
                I dx = p[j].x - p[i].x, dy = b - a;
                bool ok = true;
                for (size_t t = 0; t < m && ok; ++t) {
                    // value at xt: a + dy*(xt-xi)/dx  in [lo(t), up(t)]  <=>  lo(t)*dx <= a*dx + dy*(xt-xi) <= up(t)*dx  (sign of dx)
                    I num = a * dx + dy * (p[t].x - p[i].x);
                    I l = lo(t) * dx, u = up(t) * dx;
                    if (dx > 0) ok = l <= num && num <= u; else ok = u <= num && num <= l;
                }
                if (ok) return true;
            }
        }
    return false;
}

template<typename K>
static void check_chunks(const std::vector<K> &data, size_t eps, const std::vector<size_t> &cuts, const std::string &cfg, bool maximal) {
    using CS = typename pgm::internal::OptimalPiecewiseLinearModel<K, size_t>::CanonicalSegment;
    size_t n = data.size();
    auto in = [&](size_t i) { return data[i]; };
    ++R.cases;
    auto fail = [&](const std::string &what) {
        if (R.seen.insert(cfg + "|" + what.substr(0, 50)).second)
            R.violation(cfg + ": " + what, "{\"config\": \"" + cfg + "\", \"epsilon\": " + std::to_string(eps) + ", \"n\": " + std::to_string(n) + ", \"chunks\": " + std::to_string(cuts.size() + 1) + ", \"data\": " + vl::arr(data) + "}");
    };
    std::vector<CS> segs;
    std::vector<size_t> seg_chunk;
    g_fed.clear();
    std::vector<size_t> bounds{0};
    for (size_t c : cuts) bounds.push_back(c);
    bounds.push_back(n);
    for (size_t c = 0; c + 1 < bounds.size(); ++c) {
        size_t first = bounds[c], last = bounds[c + 1];
        if (first > 0) { while (first < last && data[first] == data[first - 1]) ++first; if (first == last) continue; }   // as make_segmentation_par does
        pgm::internal::make_segmentation(n, first, last, eps, in, [&](const CS &cs) { segs.push_back(cs); seg_chunk.push_back(c); });
    }
    // order of segments and of fed points
    for (size_t s = 1; s < segs.size(); ++s) if (!(segs[s - 1].get_first_x() < segs[s].get_first_x())) { fail("C03 segments are not emitted in increasing first-key order"); return; }
    for (size_t t = 1; t < g_fed.size(); ++t) if (!(g_fed[t - 1].first < g_fed[t].first && g_fed[t - 1].second < g_fed[t].second)) { fail("C03 fed points are not strictly increasing"); return; }
    // the first occurrence of every distinct key is fed at its rank (chunks that are skipped entirely consist of duplicates only)
    size_t t = 0;
    for (size_t i = 0; i < n; ++i)
        if (i == 0 || data[i] != data[i - 1]) {
            while (t < g_fed.size() && !(g_fed[t].first == (I) data[i] && g_fed[t].second == (I) i)) ++t;
            if (t == g_fed.size()) { fail("C03 the first occurrence of key " + vl::num(data[i]) + " (rank " + std::to_string(i) + ") was not fed"); return; }
        }
    // coverage + accuracy
    size_t s = 0;
    std::vector<std::vector<Pt>> members(segs.size());
    for (auto &pt : g_fed) {
        while (s + 1 < segs.size() && (I) segs[s + 1].get_first_x() <= pt.first) ++s;
        if ((I) segs[s].get_first_x() > pt.first) { fail("C03 a fed point precedes every segment"); return; }
        members[s].push_back({pt.first, pt.second});
    }
    for (size_t k = 0; k < segs.size(); ++k) {
        auto &rc = pgm::verif::Access::rect(segs[k]);
        I r1x = (I) rc[1].x, r1y = (I) rc[1].y, r3x = (I) rc[3].x, r3y = (I) rc[3].y;
        I dx = r3x - r1x, dy = r3y - r1y;
        auto [slope, icpt] = segs[k].get_floating_point_segment(segs[k].get_first_x());
        for (auto &p : members[k]) {
            if (dx != 0) {
                I num = dy * (p.x - r1x) + (r1y - p.y) * dx;     // (L(x) - y) * dx
                I bound = (I) eps * (dx < 0 ? -dx : dx);
                if ((num < 0 ? -num : num) > bound) { fail("C03 extreme line of a segment is more than epsilon away from a covered point (exact arithmetic)"); return; }
            }
            long double pred = slope * (long double) (p.x - (I) segs[k].get_first_x()) + (long double) icpt;
            long double err = pred - (long double) p.y;
            if (err < 0) err = -err;
            if (err > (long double) eps + 0.5L + 1e-6L * (1 + (long double) p.y)) { fail("C03 reported (slope, intercept) is more than epsilon + 1/2 away from a covered point"); return; }
        }
        // C04 maximality (within one chunk): the segment's points plus the first point of the next segment admit no line
        if (maximal && k + 1 < segs.size() && seg_chunk[k] == seg_chunk[k + 1] && !members[k + 1].empty() && members[k].size() + 1 <= 9) {
            std::vector<Pt> q = members[k];
            q.push_back(members[k + 1][0]);
            if (feasible(q, (I) eps)) { fail("C04 a segment was closed although a line within epsilon of its points and the next point exists (not maximal)"); return; }
        }
        if (!feasible(members[k], (I) eps) && members[k].size() <= 9) { fail("C03 no line is within epsilon of the points assigned to one segment"); return; }
    }
    // consecutive segment starts are more than 2*epsilon ranks apart (within one chunk)
    for (size_t k = 0; k + 1 < segs.size(); ++k)
        if (seg_chunk[k] == seg_chunk[k + 1] && !members[k].empty() && !members[k + 1].empty() && members[k + 1][0].y - members[k][0].y <= (I) (2 * eps)) {
            fail("C04 consecutive segment starts are at most 2*epsilon ranks apart"); return; }
}


// The REAL chunked builder (make_segmentation_par, n >= 2^15, 2..8 threads) on seam shapes: a duplicate run that starts before a chunk
// boundary and ends right before it / inside the chunk / one or two slots before the chunk's end / at its end / in the next chunk.
// Checked: segments in increasing first-key order; the first occurrence of every distinct key was fed at its rank; the reported line of
// the covering segment is within epsilon + 1/2 of it.  (The shape "last chunk entirely inside the final run" is known finding D15 and is
// not generated here: it is reported by pgm_static_link.)
template<typename K>
static void check_par(const std::vector<K> &data, size_t eps, int threads, const std::string &cfg, const std::string &shape) {
    using CS = typename pgm::internal::OptimalPiecewiseLinearModel<K, size_t>::CanonicalSegment;
    size_t n = data.size();
    ++R.cases;
    auto fail = [&](const std::string &what) {
        if (R.seen.insert(cfg + "|" + what.substr(0, 28)).second)
            R.violation(cfg + ": " + what, "{\"config\": \"" + cfg + "\", \"epsilon\": " + std::to_string(eps) + ", \"n\": " + std::to_string(n) + ", \"threads\": " + std::to_string(threads) + ", \"shape\": \"" + shape + "\"}");
    };
    std::vector<CS> segs;
    g_fed.clear();
    omp_set_num_threads(threads);
    pgm::internal::make_segmentation_par(n, eps, [&](size_t i) { return data[i]; }, [&](const CS &cs) { segs.push_back(cs); });
    std::sort(g_fed.begin(), g_fed.end());
    for (size_t s = 1; s < segs.size(); ++s) if (!(segs[s - 1].get_first_x() < segs[s].get_first_x())) { fail("C03 segments are not emitted in increasing first-key order (chunked builder)"); return; }
    size_t t = 0, s = 0;
    for (size_t i = 0; i < n; ++i)
        if (i == 0 || data[i] != data[i - 1]) {
            while (t < g_fed.size() && (g_fed[t].first < (I) data[i])) ++t;
            if (t == g_fed.size() || g_fed[t].first != (I) data[i] || g_fed[t].second != (I) i) { fail("C03 the first occurrence of key " + vl::num(data[i]) + " (rank " + std::to_string(i) + ") was not fed by the chunked builder"); return; }
            while (s + 1 < segs.size() && segs[s + 1].get_first_x() <= data[i]) ++s;
            auto [slope, icpt] = segs[s].get_floating_point_segment(segs[s].get_first_x());
            long double err = slope * (long double) ((I) data[i] - (I) segs[s].get_first_x()) + (long double) icpt - (long double) i;
            if (err < 0) err = -err;
            if (err > (long double) eps + 0.5L + 1e-6L * (1 + (long double) i)) { fail("C03 reported (slope, intercept) of the covering segment is more than epsilon + 1/2 away from the first occurrence of key " + vl::num(data[i]) + " (chunked builder)"); return; }
        }
}

template<typename K> static void run_par(const std::string &kname, const std::string &tier) {
    if (sizeof(K) < 4) return;
    for (size_t n : {size_t(1) << 15, size_t(40001)})
        for (int threads : {2, 4, 8}) {
            size_t par = std::min<size_t>(std::min<size_t>(omp_get_num_procs(), threads), 20);
            if (par < 2) continue;
            size_t chunk = n / par;
            for (size_t eps : {size_t(0), size_t(8)}) {
                std::string cfg = "make_segmentation_par<" + kname + "> epsilon=" + std::to_string(eps);
                for (size_t c = 1; c < par; ++c) {
                    if (tier != "thorough" && par > 2 && c != 1 && c != par - 1) continue;
                    size_t b = c * chunk, cend = c == par - 1 ? n : b + chunk;
                    long ends[] = {long(b) - 1, long(b), long(b) + 1, long(cend) - 3, long(cend) - 2, long(cend) - 1, long(cend), long(cend) + 1};
                    for (long e : ends)
                        for (size_t before : {size_t(1), size_t(3), size_t(200)}) {
                            if (e < 1 || size_t(e) >= n - 1 || b < before + 1) continue;
                            size_t sdup = b - before;            // the run occupies [sdup, e]
                            if (size_t(e) <= sdup) continue;
                            std::vector<K> d(n);
                            K v = 5;
                            for (size_t i = 0; i < n; ++i) { if (i > 0 && !(i > sdup && i <= size_t(e))) v += K(1 + (i * 7) % 5); d[i] = v; }
                            ++R.distinct;
                            check_par<K>(d, eps, threads, cfg, "n=" + std::to_string(n) + " chunk=" + std::to_string(chunk) + " run=[" + std::to_string(sdup) + "," + std::to_string(e) + "] boundary=" + std::to_string(b));
                        }
                }
            }
        }
}

template<typename K> static void run(const std::string &kname, const std::string &tier, uint64_t seed) {
    std::mt19937_64 rng(seed);
    size_t maxlen = tier == "thorough" ? 8 : 6;
    for (size_t eps : {size_t(0), size_t(1), size_t(2), size_t(3)}) {
        std::string cfg = "make_segmentation<" + kname + "> epsilon=" + std::to_string(eps);
        for (auto &alpha : vl::alphabets<K>())
            for (size_t len = 1; len <= maxlen; ++len)
                vl::for_sorted_sequences<K>(alpha, len, [&](const std::vector<K> &d) {
                    ++R.distinct;
                    check_chunks<K>(d, eps, {}, cfg, true);
                    if (d.size() >= 3) for (size_t cut = 1; cut < d.size(); ++cut) check_chunks<K>(d, eps, {cut}, cfg + " chunked", true);
                });
    }
    for (size_t eps : {size_t(1), size_t(4), size_t(16), size_t(64)}) {
        std::string cfg = "make_segmentation<" + kname + "> epsilon=" + std::to_string(eps) + " random";
        for (int r = 0; r < (tier == "thorough" ? 60 : 12); ++r) {
            auto d = vl::random_sorted<K>(rng, 50 + rng() % 3000, r % 4);
            ++R.distinct;
            check_chunks<K>(d, eps, {}, cfg, false);
            std::vector<size_t> cuts;
            for (size_t c = 1; c < 5; ++c) cuts.push_back(c * d.size() / 5);
            check_chunks<K>(d, eps, cuts, cfg + " 5 chunks", false);
        }
    }
}


int main(int argc, char **argv) {
    std::string tier = argc > 1 ? argv[1] : "quick";
    uint64_t seed = vl::seed_from_env();
    run<uint64_t>("uint64_t", tier, seed);
    run<int64_t>("int64_t", tier, seed + 1);
    run<uint32_t>("uint32_t", tier, seed + 2);
    run<int16_t>("int16_t", tier, seed + 3);
    run<uint8_t>("uint8_t", tier, seed + 4);
    run_par<uint64_t>("uint64_t", tier);
    run_par<uint32_t>("uint32_t", tier);
    return R.finish(false);
}
