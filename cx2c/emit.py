"""cx2c.emit -- typed emission of C from the parsed C++ subset.

Types are strings: scalars ('size_t','K',...), struct names, 'Vec<T>', 'It<T>' (iterator rendered as an
index into a base array), 'Ptr<T>', 'Ref<T>' (reference alias rendered as pointer), 'Pair<A,B>', '?'.

Every rewriting rule increments ctx.fired[rule]; units list rules that MUST fire (sanity check) and a
residue scan of the output rejects left-over C++ (driver).
"""
import re
from scan import ExtractionBreak
from cxparse import BUILTIN_TYPES

SCALARS = {'size_t', 'int', 'double', 'float', 'bool', 'long', 'unsigned', 'char', 'uint8_t', 'uint16_t', 'uint32_t',
           'uint64_t', 'int8_t', 'int16_t', 'int32_t', 'int64_t', '__int128', 'long double', 'unsigned long long',
           'long long', 'ptrdiff_t', 'unsigned int'}


def tparam(t):
    """'Vec<Item>' -> 'Item'"""
    i = t.index('<')
    return t[i + 1:-1]


def tkind(t):
    if '<' in t and t.endswith('>'):
        return t[:t.index('<')]
    return ''


def split_targs(s):
    out = []
    d = 0
    cur = ''
    for ch in s:
        if ch in '<(':
            d += 1
        elif ch in '>)':
            d -= 1
        if ch == ',' and d == 0:
            out.append(cur.strip())
            cur = ''
        else:
            cur += ch
    if cur.strip():
        out.append(cur.strip())
    return out


class FuncInfo:
    def __init__(self, cname, ret='?', base=None, static=False, self_const=True, params=None, ref=False, as_base=False, lead_base=(), template=None):
        self.cname = cname
        self.template = template   # call rendering with placeholders %aN (argument), %pN (address of argument), %bN (iterator base of argument), %TN (type name of argument)
        self.ret = ret          # internal type of the value (for Ref returns: the referred type)
        self.base = base        # for It returns: base expr template; '%self' is replaced by the object expr
        self.static = static
        self.params = params
        self.ref = ref          # returns a reference (C: pointer; calls are wrapped in (* ))
        self.lead_base = tuple(lead_base)   # argument positions whose iterator base array is passed in front of them
        self.as_base = as_base  # C function returns the array pointer; the call is rendered as index 0 over that base


class Ctx:
    def __init__(self, cls=None, fields=None, methods=None, structs=None, struct_methods=None, funcs=None, ops=None,
                 callops=None, conv=None, typemap=None, consts=None, ret='void', selfname='self', lambdas=None):
        self.cls = cls
        self.fields = dict(fields or {})
        self.methods = dict(methods or {})
        self.structs = dict(structs or {})
        self.struct_methods = dict(struct_methods or {})
        self.funcs = dict(funcs or {})
        self.ops = dict(ops or {})
        self.callops = dict(callops or {})
        self.conv = dict(conv or {})
        self.typemap = dict(typemap or {})
        self.consts = dict(consts or {})
        self.ret = ret
        self.selfname = selfname
        self.env = {}
        self.bases = {}
        self.fired = {}
        self.loop_no = 0
        self.ret_no = 0
        self.call_no = {}
        self.fn = ''
        self.lambdas = dict(lambdas or {})   # local lambda name -> dict(cname, caps, params, ret)
        self.lifted = []                     # emitted text of lifted lambdas
        self.tmp_no = 0
        self.pre = []                        # statements to hoist before the current statement

    def fire(self, r):
        self.fired[r] = self.fired.get(r, 0) + 1

    # ---------------------------------------------------------------- type text -> internal type
    def itype(self, txt):
        t = txt.strip()
        t = re.sub(r'^(const|typename|struct|static|constexpr)\s+', '', t)
        t = re.sub(r'^(const|typename|struct|static|constexpr)\s+', '', t)
        t = re.sub(r'\s*(const)?\s*&+$', '', t).strip()
        if t in self.typemap:
            return self.typemap[t]
        m = re.match(r'std::vector<(.*)>$', t)
        if m:
            return 'Vec<' + self.itype(m.group(1)) + '>'
        m = re.match(r'std::pair<(.*)>$', t)
        if m:
            a = split_targs(m.group(1))
            return 'Pair<' + ','.join(self.itype(x) for x in a) + '>'
        if t.endswith('*'):
            return 'Ptr<' + self.itype(t[:-1]) + '>'
        if t in SCALARS or t in self.structs:
            return t
        m = re.match(r'decltype\((\w+)\)$', t.replace(' ', ''))
        if m and m.group(1) in self.env:
            return self.env[m.group(1)]
        return t if re.match(r'^\w+$', t) else '?'

    def ctype(self, t):
        k = tkind(t)
        if k == 'Vec':
            return 'vec_' + self.cname_of_type(tparam(t))
        if k == 'It':
            return 'size_t'
        if k in ('Ptr', 'Ref'):
            return self.ctype(tparam(t)) + ' *'
        if k == 'Pair':
            return 'pair_' + '_'.join(self.cname_of_type(x) for x in split_targs(tparam(t)))
        return t

    def cname_of_type(self, t):
        k = tkind(t)
        if k == 'Vec':
            return 'vec_' + self.cname_of_type(tparam(t))
        return t.replace(' ', '_')

    # ---------------------------------------------------------------- typing
    def field_type(self, st, f):
        st = self.strip_ref(st)
        if st in self.structs and f in self.structs[st]:
            return self.structs[st][f]
        if tkind(st) == 'Pair':
            a = split_targs(tparam(st))
            return a[0] if f == 'first' else a[1] if f == 'second' else '?'
        return '?'

    @staticmethod
    def strip_ref(t):
        while tkind(t) in ('Ref',):
            t = tparam(t)
        if t.startswith('vec_'):
            return 'Vec<' + t[4:] + '>'
        return t

    def typeof(self, e):
        k = e[0]
        if k == 'lit':
            v = e[1]
            if v.startswith('"'):
                return 'str'
            if v.startswith("'"):
                return 'char'
            if re.match(r'0[xX][0-9a-fA-F.]+[pP]', v):
                return 'double'
            if not v.lower().startswith('0x') and re.search(r'[.eE]', v):
                return 'float' if v.lower().endswith('f') else 'double'
            if v == 'NULL':
                return 'Ptr<void>'
            sfx = re.sub(r'^[0-9a-fA-FxXbB]+', '', v).lower()
            if 'ull' in sfx or 'llu' in sfx:
                return 'unsigned long long'
            if 'u' in sfx and 'l' in sfx:
                return 'size_t'
            if 'u' in sfx:
                return 'unsigned'
            if 'l' in sfx:
                return 'long'
            return 'int'
        if k == 'sizeof':
            return 'size_t'
        if k == 'this':
            return 'Ptr<' + (self.cls or '?') + '>'
        if k == 'id':
            n = e[1]
            if n in self.env:
                return self.strip_ref(self.env[n])
            if n in self.fields:
                return self.fields[n]
            if n in self.consts:
                return self.consts[n][1]
            return '?'
        if k == 'paren':
            return self.typeof(e[1])
        if k == 'cast':
            return self.itype(e[1])
        if k == 'member':
            if e[1][0] == 'this':
                return self.fields.get(e[2], '?')
            t = self.typeof(e[1])
            if e[3]:
                if tkind(t) in ('It', 'Ptr'):
                    t = tparam(t)
            return self.field_type(t, e[2])
        if k == 'index':
            t = self.typeof(e[1])
            if tkind(t) in ('Vec', 'It', 'Ptr', 'Arr'):
                return self.strip_ref(tparam(t))
            if (self.strip_ref(t), 'operator[]') in self.struct_methods:
                return self.struct_methods[(self.strip_ref(t), 'operator[]')].ret
            return '?'
        if k == 'un':
            t = self.typeof(e[2])
            if e[1] == '*':
                if tkind(t) in ('It', 'Ptr'):
                    return tparam(t)
                return '?'
            if e[1] == '&':
                return 'Ptr<' + t + '>'
            if e[1] == '!':
                return 'bool'
            if e[1] in ('-', '+', '~') and t in ('bool', 'char', 'uint8_t', 'uint16_t', 'int8_t', 'int16_t'):
                return 'int'
            return t
        if k == 'post':
            return self.typeof(e[2])
        if k == 'bin':
            l, r = self.typeof(e[2]), self.typeof(e[3])
            if (l, e[1], r) in self.ops:
                return self.ops[(l, e[1], r)][0]
            if e[1] in ('<', '>', '<=', '>=', '==', '!=', '&&', '||'):
                return 'bool'
            if tkind(l) == 'It' and tkind(r) == 'It':
                return 'long'
            if tkind(l) in ('It', 'Ptr'):
                return l
            if tkind(r) in ('It', 'Ptr') and e[1] == '+':
                return r
            if e[1] in ('<<', '>>'):
                return self.promote(l)
            return self.arith(l, r)
        if k == 'ternary':
            a = self.typeof(e[2])
            b = self.typeof(e[3])
            if a == '?' or (e[2][0] == 'lit' and b != '?'):
                return b
            if a != b and a in SCALARS and b in SCALARS:
                return self.arith(a, b)
            return a
        if k == 'assign':
            return self.typeof(e[2])
        if k == 'comma':
            return self.typeof(e[2])
        if k == 'init':
            return self.itype(e[1]) if e[1] else '?'
        if k == 'fold':
            return 'bool'
        if k == 'call':
            return self.call_type(e)
        return '?'

    RANK = {'bool': 0, 'char': 0, 'int8_t': 0, 'uint8_t': 0, 'int16_t': 0, 'uint16_t': 0, 'int': 1, 'int32_t': 1, 'unsigned': 2,
            'unsigned int': 2, 'uint32_t': 2, 'long': 3, 'int64_t': 3, 'long long': 3, 'ptrdiff_t': 3, 'size_t': 4, 'uint64_t': 4,
            'unsigned long long': 4, '__int128': 5, 'float': 6, 'double': 7, 'long double': 8}

    def promote(self, t):
        if t in self.RANK and self.RANK[t] == 0:
            return 'int'
        return t

    def arith(self, l, r):
        if l == '?' or r == '?':
            return l if r == '?' else r
        if l in self.RANK and r in self.RANK:
            if self.RANK[l] == 0 and self.RANK[r] == 0:
                return 'int'
            return l if self.RANK[l] >= self.RANK[r] else r
        # typedef'd scalars (K, V, T, X, Y, Floating ...): keep the typedef unless the other side is wider-known float
        if l in self.RANK and self.RANK[l] >= 6:
            return l
        if r in self.RANK and self.RANK[r] >= 6:
            return r
        if l in self.RANK and r not in self.RANK:
            return r
        return l

    def call_type(self, e):
        f, a = e[1], e[2]
        if f[0] == 'id':
            n = f[1]
            if n in ('std::move', 'std::copy') and len(a) == 3:
                return self.typeof(a[2])
            if n in ('std::move', 'std::forward') and len(a) == 1:
                return self.typeof(a[0])
            if n in ('std::next', 'std::prev'):
                return self.typeof(a[0])
            if n == 'std::distance':
                return 'long'
            if n in ('std::min', 'std::max', 'std::clamp'):
                if f[2]:
                    return self.itype(f[2])
                return self.typeof(a[0])
            if n in ('std::upper_bound', 'std::lower_bound'):
                return self.typeof(a[0])
            if n == 'std::binary_search':
                return 'bool'
            if n in ('std::round', 'std::nextafter'):
                return self.typeof(a[0])
            m = re.match(r'std::numeric_limits<(.*)>::(\w+)$', n)
            if m:
                return self.itype(m.group(1))
            if n in self.lambdas:
                return self.lambdas[n]['ret']
            if n in self.methods:
                return self.methods[n].ret
            if n + '/' + str(len(a)) in self.funcs:
                return self.funcs[n + '/' + str(len(a))].ret
            if n in self.funcs:
                return self.funcs[n].ret
            if n in self.env and self.strip_ref(self.env[n]) in self.callops:
                return self.callops[self.strip_ref(self.env[n])].ret
            if n in self.fields and self.strip_ref(self.fields[n]) in self.callops:
                return self.callops[self.strip_ref(self.fields[n])].ret
            full = n + ('<' + f[2] + '>' if f[2] else '')
            t = self.itype(full)
            if t in SCALARS or t in self.structs or n in self.typemap or full in self.typemap:
                return t
            if n in ('__builtin_expect',):
                return self.typeof(a[0])
            if n.startswith('__builtin_clz'):
                return 'int'
            if n == '__builtin_mul_overflow':
                return 'bool'
            return '?'
        if f[0] == 'member':
            ot = self.typeof(f[1])
            if f[3] and tkind(ot) in ('It', 'Ptr'):
                ot = tparam(ot)
            ot = self.strip_ref(ot)
            m = f[2]
            if tkind(ot) == 'Vec':
                el = tparam(ot)
                if m in ('size', 'capacity'):
                    return 'size_t'
                if m == 'empty':
                    return 'bool'
                if m in ('begin', 'end', 'cbegin', 'cend', 'insert'):
                    return 'It<' + el + '>'
                if m in ('front', 'back'):
                    return self.strip_ref(el)
                if m == 'data':
                    return 'Ptr<' + el + '>'
                return 'void'
            if (ot, m) in self.struct_methods:
                return self.struct_methods[(ot, m)].ret
            return '?'
        ft = self.strip_ref(self.typeof(f))
        if ft in self.callops:
            return self.callops[ft].ret
        return '?'

    # ---------------------------------------------------------------- iterator bases
    def base_of(self, e):
        k = e[0]
        if k == 'id':
            return self.bases.get(e[1])
        if k == 'member' and e[1][0] == 'this':
            return self.bases.get(e[2])
        if k == 'paren':
            return self.base_of(e[1])
        if k == 'bin':
            return self.base_of(e[2]) or self.base_of(e[3])
        if k in ('un', 'post'):
            return self.base_of(e[2])
        if k == 'ternary':
            return self.base_of(e[2]) or self.base_of(e[3])
        if k == 'assign':
            return self.base_of(e[3]) or self.base_of(e[2])
        if k == 'call':
            f, a = e[1], e[2]
            if f[0] == 'id':
                n = f[1]
                if n in ('std::move', 'std::copy') and len(a) == 3:
                    return self.base_of(a[2])
                if n in ('std::next', 'std::prev', 'std::upper_bound', 'std::lower_bound', 'std::max', 'std::min'):
                    return self.base_of(a[0]) or (self.base_of(a[1]) if len(a) > 1 else None)
                fi = self.lambdas.get(n) and None or self.methods.get(n) or self.funcs.get(n)
                if fi is not None and fi.base:
                    b = fi.base
                    for i, x in enumerate(a):
                        if '%b' + str(i) in b:
                            b = b.replace('%b' + str(i), self.base_of(x) or '?')
                        if '%' + str(i) in b:
                            b = b.replace('%' + str(i), self.em(x))
                    return b.replace('%self', self.selfname)
            if f[0] == 'member':
                ot = self.typeof(f[1])
                if f[3] and tkind(ot) in ('It', 'Ptr'):
                    ot = tparam(ot)
                ot = self.strip_ref(ot)
                if tkind(ot) == 'Vec' and f[2] in ('begin', 'end', 'cbegin', 'cend', 'insert'):
                    return self.em_obj(f[1], f[3]) + '.data'
                if (ot, f[2]) in self.struct_methods and self.struct_methods[(ot, f[2])].base:
                    return self.struct_methods[(ot, f[2])].base.replace('%self', self.em_addr(f[1], f[3]))
        return None

    def need_base(self, e):
        b = self.base_of(e)
        if not b:
            raise ExtractionBreak('iterator expression without a known base array: %r' % (e,))
        return b

    # ---------------------------------------------------------------- emission helpers
    def em_obj(self, e, arrow):
        """emit object expression `e` as an lvalue of struct type (deref'ing iterators/pointers when arrow)"""
        t = self.typeof(e)
        if arrow:
            if tkind(t) == 'It':
                self.fire('iter_arrow')
                return '%s[%s]' % (self.need_base(e), self.em(e))
            if e[0] == 'this':
                return '(*%s)' % self.selfname
            return '(*%s)' % self.em(e)
        return self.em(e)

    def em_addr(self, e, arrow=False):
        """emit the address of object expression e"""
        t = self.typeof(e)
        if arrow:
            if tkind(t) == 'It':
                self.fire('iter_arrow')
                return '&%s[%s]' % (self.need_base(e), self.em(e))
            if e[0] == 'this':
                return self.selfname
            return self.em(e)
        while e[0] == 'paren':
            e = e[1]
        if e[0] == 'ternary':
            # address of `c ? a : b` (a conditional lvalue): distribute the address-of
            self.fire('ternary_lvalue')
            return '(%s ? %s : %s)' % (self.em(e[1]), self.em_addr(e[2]), self.em_addr(e[3]))
        s = self.em(e)
        m = re.match(r'^\(\*(\w+)\)$', s)
        if m:
            return m.group(1)
        return '&' + s

    def scalarize(self, e):
        t = self.strip_ref(self.typeof(e))
        if t in self.conv:
            self.fire('conversion_operator')
            return '%s.%s' % (self.em_paren(e), self.conv[t])
        return self.em(e)

    def em_paren(self, e):
        s = self.em(e)
        if re.match(r'^[\w.\[\]>-]+$', s) and not s.startswith('-'):
            return s
        if s.startswith('(') and s.endswith(')') and self._balanced(s[1:-1]):
            return s
        return '(' + s + ')'

    @staticmethod
    def _balanced(s):
        d = 0
        for ch in s:
            if ch == '(':
                d += 1
            elif ch == ')':
                d -= 1
                if d < 0:
                    return False
        return d == 0

    def minmax_name(self, fn, t):
        ct = self.cname_of_type(t)
        return 'pgmv_%s_%s' % (fn, ct)

    def count_call(self, name):
        self.call_no[name] = self.call_no.get(name, 0) + 1

    # ---------------------------------------------------------------- expression emission
    def em(self, e):
        k = e[0]
        if k == 'lit':
            v = e[1]
            if v.lower().startswith('0b'):
                sfx = re.sub(r'^0[bB][01]+', '', v)
                return str(int(re.match(r'0[bB]([01]+)', v).group(1), 2)) + sfx
            return v
        if k == 'sizeof':
            inner = e[1]
            t = self.itype(inner)
            if t != '?' and (t in self.typemap.values() or inner in self.typemap or t in SCALARS or t in self.structs):
                return 'sizeof(%s)' % self.ctype(t)
            return 'sizeof(%s)' % inner
        if k == 'this':
            return self.selfname
        if k == 'id':
            n = e[1]
            if n in self.env:
                if tkind(self.env[n]) == 'Ref':
                    return '(*%s)' % n
                return n
            if n in self.fields:
                self.fire('member_field')
                return '%s->%s' % (self.selfname, n)
            if n in self.consts:
                self.fire('const:' + n)
                return self.consts[n][0]
            m = re.match(r'std::(is_same_v|is_floating_point_v|is_integral_v|is_pointer_v|is_arithmetic_v)$', n)
            if m and e[2]:
                self.fire('type_trait')
                a = [self.ctype(self.itype(x)) for x in split_targs(e[2])]
                return 'PGMV_%s(%s)' % (m.group(1).upper(), ', '.join(a))
            if '::' in n:
                m = re.match(r'std::numeric_limits<(.*)>::(\w+)$', n)
                if m:
                    self.fire('numeric_limits')
                    return 'PGMV_LIMITS_%s_%s' % (self.cname_of_type(self.itype(m.group(1))), m.group(2))
                raise ExtractionBreak('unresolved qualified name %s' % n)
            return n
        if k == 'paren':
            return '(' + self.em(e[1]) + ')'
        if k == 'cast':
            t = self.itype(e[1])
            self.fire('cast')
            return self.em_cast(t, e[2])
        if k == 'init':
            items = ', '.join(self.em(x) for x in e[2])
            if e[1]:
                self.fire('typed_brace_init')
                return '(%s){%s}' % (self.ctype(self.itype(e[1])), items)
            return '{' + items + '}'
        if k == 'member':
            b = e[1]
            t = self.typeof(b)
            if b[0] == 'this':
                self.fire('this_member')
                return '%s->%s' % (self.selfname, e[2])
            if e[3] and tkind(t) == 'It':
                self.fire('iter_arrow')
                return '%s[%s].%s' % (self.need_base(b), self.em(b), e[2])
            if e[3]:
                return '%s->%s' % (self.em_paren(b), e[2])
            s = self.em_paren(b)
            m = re.match(r'^\(\*(\w+)\)$', s)
            if m:
                return '%s->%s' % (m.group(1), e[2])
            return '%s.%s' % (s, e[2])
        if k == 'index':
            b = e[1]
            t = self.typeof(b)
            if tkind(t) == 'It':
                self.fire('iter_index')
                return '%s[%s + %s]' % (self.need_base(b), self.em_paren(b), self.em_paren(e[2]))
            if tkind(t) == 'Vec':
                self.fire('vec_index')
                return '%s.data[%s]' % (self.em_paren(b), self.em(e[2]))
            st = self.strip_ref(t)
            if (st, 'operator[]') in self.struct_methods:
                fi = self.struct_methods[(st, 'operator[]')]
                self.fire('index_operator')
                self.count_call(fi.cname)
                return '%s(%s, %s)' % (fi.cname, self.em_addr(b), self.em(e[2]))
            return '%s[%s]' % (self.em_paren(b), self.em(e[2]))
        if k == 'un':
            op, x = e[1], e[2]
            t = self.typeof(x)
            if op == '*':
                if tkind(t) == 'It':
                    self.fire('iter_deref')
                    return '%s[%s]' % (self.need_base(x), self.em(x))
                return '(*%s)' % self.em_paren(x)
            if op == '&':
                if x[0] == 'un' and x[1] == '*':
                    return self.em_addr(x[2], True)
                return self.em_addr(x)
            return op + self.em_paren(x) if op in ('-', '+', '!', '~') else op + self.em(x)
        if k == 'post':
            return self.em(e[2]) + e[1]
        if k == 'bin':
            op = e[1]
            l, r = self.typeof(e[2]), self.typeof(e[3])
            if (l, op, r) in self.ops:
                self.fire('operator_call')
                return '%s(%s, %s)' % (self.ops[(l, op, r)][1], self.em(e[2]), self.em(e[3]))
            if op in ('<', '>', '<=', '>=', '==', '!=', '+', '-', '*', '/'):
                return '%s %s %s' % (self.scalarize_p(e[2], op), op, self.scalarize_p(e[3], op, right=True))
            return '%s %s %s' % (self.em_bp(e[2], op), op, self.em_bp(e[3], op, right=True))
        if k == 'ternary':
            return '%s ? %s : %s' % (self.em_bp(e[1], '?'), self.em(e[2]), self.em(e[3]))
        if k == 'assign':
            return self.em_assign(e)
        if k == 'comma':
            return self.em(e[1]) + ', ' + self.em(e[2])
        if k == 'call':
            return self.em_call(e)
        if k == 'fold_placeholder':
            pass
        if k == 'fold':
            # unary right fold over a parameter pack: ( E op ... ), expanded for each pack value
            pack = getattr(self, 'pack', None)
            if not pack:
                raise ExtractionBreak('fold expression without a pack binding')
            (pname, values), = pack.items()
            self.fire('fold_expression')
            outs = []
            saved = self.consts.get(pname)
            for v in values:
                self.consts[pname] = (str(v), 'size_t')
                outs.append('(' + self.em(e[2]) + ')')
            if saved is None:
                del self.consts[pname]
            else:
                self.consts[pname] = saved
            return (' %s ' % e[1]).join(outs)
        if k == 'throwexpr':
            raise ExtractionBreak('throw inside expression')
        if k == 'lambda':
            raise ExtractionBreak('lambda in expression position (only `auto f = [..](..){..};` is lifted)')
        raise ExtractionBreak('emit: unknown node ' + k)

    def em_bp(self, e, op, right=False):
        """emit operand of a binary operator, parenthesising nested binaries of lower/equal precedence"""
        from cxparse import BINPREC
        s = self.em(e)
        if e[0] in ('bin',) and (op == '?' or BINPREC.get(e[1], 99) < BINPREC.get(op, 0) or (right and BINPREC.get(e[1], 99) == BINPREC.get(op, 0))):
            return '(' + s + ')'
        if e[0] in ('ternary', 'assign', 'comma'):
            return '(' + s + ')'
        return s

    def scalarize_p(self, e, op, right=False):
        t = self.strip_ref(self.typeof(e))
        if t in self.conv:
            return self.scalarize(e)
        return self.em_bp(e, op, right)

    def em_assign(self, e):
        op, l, r = e[1], e[2], e[3]
        lt = self.typeof(l)
        if tkind(lt) == 'It' and l[0] == 'id' and op == '=':
            nb = self.base_of(r)
            ob = self.bases.get(l[1])
            if nb and ob and nb != ob:
                # iterator re-seated onto another array: allowed only if the unit declares the alias
                if (ob, nb) not in getattr(self, 'base_alias', set()):
                    raise ExtractionBreak('iterator %s re-based from %s to %s' % (l[1], ob, nb))
            if nb and not ob:
                self.bases[l[1]] = nb
        if l[0] == 'index' and op == '=':
            st_ = self.strip_ref(self.typeof(l[1]))
            if (st_, 'operator[]=') in self.struct_methods:
                # proxy assignment `v[i] = x` of a container class rendered as a setter call
                fi = self.struct_methods[(st_, 'operator[]=')]
                self.fire('index_assign_operator')
                self.count_call(fi.cname)
                return '%s(%s, %s, %s)' % (fi.cname, self.em_addr(l[1]), self.em(l[2]), self.em(r))
        if r[0] == 'init' and r[1] is None:
            # x = {a, b}  ->  compound literal of the lhs type
            return '%s %s (%s){%s}' % (self.em(l), op, self.ctype(lt), ', '.join(self.em(x) for x in r[2]))
        return '%s %s %s' % (self.em(l), op, self.em(r))

    def em_arg(self, x, ptype):
        """argument for a parameter of declared internal type ptype (None: unknown)"""
        if ptype is None:
            return self.em(x)
        if tkind(ptype) == 'Ref':
            return self.em_addr(x)
        xt = self.strip_ref(self.typeof(x))
        if xt in self.conv and (ptype in SCALARS or ptype in ('K', 'V', 'T')):
            return self.scalarize(x)
        return self.em(x)

    def em_cast(self, t, x):
        xt = self.strip_ref(self.typeof(x))
        floating = getattr(self, 'floating', ())
        if t in self.RANK and self.RANK[t] < 6 and xt in floating:
            # float -> integer: in range exact, out of range unspecified (see pgmv.h)
            self.fire('float_to_int')
            if t not in ('size_t', 'int64_t'):
                raise ExtractionBreak('float -> %s conversion has no prelude helper' % t)
            return 'pgmv_f2i_%s(%s)' % (t, self.em(x))
        if xt in self.conv and (t in SCALARS or t in ('K', 'V', 'T')):
            return '((%s)(%s))' % (self.ctype(t), self.scalarize(x))
        return '((%s)(%s))' % (self.ctype(t), self.em(x))

    # ---------------------------------------------------------------- calls
    def em_args(self, a):
        return ', '.join(self.em(x) for x in a)

    def em_call(self, e):
        f, a = e[1], e[2]
        if f[0] == 'id':
            n = f[1]
            targs = f[2]
            if n in ('std::move', 'std::forward') and len(a) == 1:
                self.fire('std_move_value')
                return self.em(a[0])
            if n in ('std::move', 'std::copy') and len(a) == 3:
                self.fire('range_copy')
                el = tparam(self.typeof(a[0]))
                self.count_call('pgmv_copy_' + self.cname_of_type(el))
                return 'pgmv_copy_%s(%s, %s, %s, %s, %s)' % (self.cname_of_type(el), self.need_base(a[0]), self.em(a[0]), self.em(a[1]),
                                                              self.need_base(a[2]), self.em(a[2]))
            if n in ('std::next', 'std::prev'):
                self.fire('std_' + n[5:])
                step = self.em_paren(a[1]) if len(a) > 1 else '1'
                return '(%s %s %s)' % (self.em_paren(a[0]), '+' if n == 'std::next' else '-', step)
            if n == 'std::distance':
                self.fire('std_distance')
                return '((ptrdiff_t)(%s) - (ptrdiff_t)(%s))' % (self.em(a[1]), self.em(a[0]))
            if n in ('std::min', 'std::max'):
                self.fire('std_minmax')
                t = self.itype(targs) if targs else self.typeof(a[0])
                if t == '?':
                    t = self.typeof(a[1])
                if tkind(t) == 'It':
                    return '%s(%s, %s)' % (self.minmax_name(n[5:], 'size_t'), self.em(a[0]), self.em(a[1]))
                if t == '?':
                    raise ExtractionBreak('cannot type std::min/max arguments')
                return '%s(%s, %s)' % (self.minmax_name(n[5:], t), self.em(a[0]), self.em(a[1]))
            if n == 'std::clamp':
                t = self.itype(targs) if targs else self.typeof(a[0])
                self.fire('std_clamp')
                return 'pgmv_clamp_%s(%s)' % (self.cname_of_type(t), self.em_args(a))
            if n in ('std::upper_bound', 'std::lower_bound', 'std::binary_search'):
                self.fire(n.replace('::', '_'))
                t0 = self.typeof(a[0])
                if tkind(t0) != 'It':
                    raise ExtractionBreak('%s over non-iterator' % n)
                el = tparam(t0)
                fn = 'pgmv_%s_%s' % (n[5:], self.cname_of_type(el))
                self.count_call(fn)
                base = self.base_of(a[0]) or self.need_base(a[1])
                return '%s(%s, %s, %s, %s)' % (fn, base, self.em(a[0]), self.em(a[1]), self.scalarize(a[2]))
            if n in ('std::round', 'std::nextafter', 'std::sqrt', 'std::pow'):
                self.fire('libm')
                t = self.typeof(a[0])
                sfx = {'float': 'f', 'long double': 'l'}.get(t, '')
                return '%s%s(%s)' % (n[5:], sfx, self.em_args(a))
            m = re.match(r'std::numeric_limits<(.*)>::(\w+)$', n)
            if m:
                self.fire('numeric_limits')
                return 'PGMV_LIMITS_%s_%s' % (self.cname_of_type(self.itype(m.group(1))), m.group(2))
            if n.startswith('PGM_INDEX_VERIF_'):
                self.fire('drop_verif_hook')
                return '(void)0'
            if n == '__builtin_prefetch':
                self.fire('drop_prefetch')
                return '(void)0'
            if n == '__builtin_expect':
                self.fire('builtin_expect')
                return '(%s)' % self.em(a[0])
            if n.startswith('__builtin_'):
                return '%s(%s)' % (n, self.em_args(a))
            if n in self.lambdas:
                lam = self.lambdas[n]
                self.fire('lambda_call')
                self.count_call(lam['cname'])
                caps = [('&' + c if tkind(self.env.get(c, '')) != 'Ref' else c) if c != self.selfname else c for c in lam['caps']]
                return '%s(%s)' % (lam['cname'], ', '.join(caps + [self.em(x) for x in a]))
            if n in self.env or (n in self.fields and self.strip_ref(self.fields[n]) in self.callops):
                t = self.strip_ref(self.env[n]) if n in self.env else self.strip_ref(self.fields[n])
                if t in self.callops:
                    fi = self.callops[t]
                    self.fire('call_operator')
                    self.count_call(fi.cname)
                    return '%s(%s)' % (fi.cname, ', '.join([self.em_addr(f)] + [self.em_arg(x, fi.params[i_] if fi.params and i_ < len(fi.params) else None) for i_, x in enumerate(a)]))
                if t.startswith('Fn:'):
                    # callback parameter (in/out functors): rendered by the unit's binding 'Fn:CALLEE@ARGUMENT-RENDERING'
                    self.fire('callback')
                    cn = t[3:].split('@')[0]
                    self.count_call(cn.split('(')[0])
                    return '%s(%s)' % (cn, self.em_args(a))
            if n in self.methods:
                fi = self.methods[n]
                self.fire('method_call')
                if getattr(fi, 'template', None):
                    self.count_call(fi.cname)
                    out = fi.template
                    for i_ in range(len(a) - 1, -1, -1):
                        if '%a' + str(i_) in out:
                            out = out.replace('%a' + str(i_), self.em_paren(a[i_]))
                        if '%p' + str(i_) in out:
                            out = out.replace('%p' + str(i_), self.em_addr(a[i_]))
                        if '%b' + str(i_) in out:
                            out = out.replace('%b' + str(i_), self.need_base(a[i_]))
                        if '%T' + str(i_) in out:
                            # the C type name of the argument (overload selection by argument type, e.g. a template<T> helper)
                            tn_ = re.sub(r'\W', '_', str(self.typeof(a[i_]))).strip('_')
                            out = out.replace('%T' + str(i_), tn_)
                    return out.replace('%self', self.selfname)
                pre_args = []
                if targs and getattr(fi, 'targs_as_args', False):
                    for x in split_targs(targs):
                        x = x.strip()
                        pre_args.append('1' if x == 'true' else '0' if x == 'false' else self.em(('id', x, None)))
                if fi.as_base:
                    return '((size_t)0)'
                self.count_call(fi.cname)
                args = []
                for i_, x in enumerate(a):
                    if i_ in fi.lead_base:
                        args.append(self.need_base(x))
                    args.append(self.em_arg(x, fi.params[i_] if fi.params and i_ < len(fi.params) else None))
                s = '%s(%s)' % (fi.cname, ', '.join(([] if fi.static else [self.selfname]) + pre_args + args))
                return '(*%s)' % s if fi.ref else s
            if n + '/' + str(len(a)) in self.funcs or n in self.funcs:
                fi = self.funcs.get(n + '/' + str(len(a))) or self.funcs[n]
                self.fire('function_call')
                self.count_call(fi.cname)
                args = []
                for x in a:
                    if x[0] == 'id' and self.env.get(x[1], '').startswith('Fn:'):
                        # a functor passed on: rendered as the bound argument (dropped when the binding has none)
                        r = self.env[x[1]].split('@')[1] if '@' in self.env[x[1]] else ''
                        if r:
                            args.append(r)
                        continue
                    args.append(self.em(x))
                return '%s(%s)' % (fi.cname, ', '.join(args))
            full = n + ('<' + targs + '>' if targs else '')
            t = self.itype(full)
            if (t in SCALARS or n in self.typemap or full in self.typemap or n in BUILTIN_TYPES) and len(a) == 1:
                self.fire('functional_cast')
                return self.em_cast(t, a[0])
            if t in self.structs:
                # T(a, b) value construction of a plain struct
                ctor = self.struct_methods.get((t, t))
                if len(a) == 0:
                    self.fire('struct_default_value')
                    return '(%s){0}' % self.ctype(t)
                if ctor is not None:
                    self.fire('ctor_call')
                    self.count_call(ctor.cname)
                    args = []
                    for i_, x in enumerate(a):
                        if i_ in ctor.lead_base:
                            args.append(self.need_base(x))
                        args.append(self.em(x))
                    return '%s(%s)' % (ctor.cname, ', '.join(args))
                if any(tkind(self.typeof(x)) == 'It' for x in a):
                    raise ExtractionBreak('construction of %s from iterators has no registered constructor' % t)
                self.fire('struct_value_ctor')
                return '(%s){%s}' % (self.ctype(t), self.em_args(a))
            raise ExtractionBreak('call of unknown function %s' % n)
        if f[0] == 'member':
            return self.em_method_call(f, a)
        ft = self.strip_ref(self.typeof(f))
        if ft in self.callops:
            self.fire('call_operator')
            self.count_call(self.callops[ft].cname)
            inner = f[1] if f[0] == 'paren' else f
            if inner[0] == 'un' and inner[1] == '*':
                addr = self.em_addr(inner[2], True)
            else:
                addr = self.em_addr(inner)
            return '%s(%s)' % (self.callops[ft].cname, ', '.join([addr] + [self.em(x) for x in a]))
        raise ExtractionBreak('call through expression of type %s' % ft)

    def em_method_call(self, f, a):
        obj, m, arrow = f[1], f[2], f[3]
        ot = self.typeof(obj)
        if arrow and tkind(ot) in ('It', 'Ptr'):
            ot = tparam(ot)
        ot = self.strip_ref(ot)
        if obj[0] == 'this':
            if m in self.methods:
                fi = self.methods[m]
                self.fire('method_call')
                self.count_call(fi.cname)
                s = '%s(%s)' % (fi.cname, ', '.join(([] if fi.static else [self.selfname]) + [self.em(x) for x in a]))
                return '(*%s)' % s if fi.ref else s
            raise ExtractionBreak('this->%s: unknown method' % m)
        if tkind(ot) == 'Vec':
            v = self.em_obj(obj, arrow)
            el = self.cname_of_type(tparam(ot))
            self.fire('vec_' + m)
            if m in ('size',):
                return v + '.size'
            if m == 'capacity':
                return v + '.cap'
            if m == 'empty':
                return '(%s.size == 0)' % v
            if m in ('begin', 'cbegin'):
                return '((size_t)0)'
            if m in ('end', 'cend'):
                return v + '.size'
            if m == 'front':
                return v + '.data[0]'
            if m == 'back':
                return '%s.data[%s.size - 1]' % (v, v)
            if m == 'data':
                return v + '.data'
            if m in ('clear', 'push_back', 'emplace_back', 'resize', 'reserve', 'insert', 'shrink_to_fit', 'pop_back'):
                fn = 'vec_%s_%s' % (el, m)
                if m in ('resize', 'reserve') and getattr(self, 'local_vectors_grow', False):
                    fn = 'vec_%s_%s_any' % (el, m)     # unit option: resize of local vectors may grow (see pgmv.h)
                    self.fire('resize_may_grow')
                self.count_call(fn)
                args = [self.em_addr(obj, arrow)]
                if m == 'emplace_back' and len(a) != 1:
                    t = tparam(ot)
                    ctor = self.struct_methods.get((t, t))
                    if ctor is not None and len(a) >= 1:
                        self.count_call(ctor.cname)
                        args.append('%s(%s)' % (ctor.cname, self.em_args(a)))
                    elif len(a) == 0:
                        fn = 'vec_%s_emplace_back_default' % el
                    else:
                        args.append('(%s){%s}' % (self.ctype(t), self.em_args(a)))
                elif m == 'emplace_back' and len(a) == 1:
                    t = tparam(ot)
                    at = self.strip_ref(self.typeof(a[0]))
                    conv = self.struct_methods.get((t, 'from:' + at))
                    if conv is not None:
                        self.fire('converting_ctor')
                        self.count_call(conv.cname)
                        args.append('%s(%s)' % (conv.cname, self.em_addr(a[0]) if at in self.structs else self.em(a[0])))
                    else:
                        args.append(self.em(a[0]))
                else:
                    args += [self.em(x) for x in a]
                return '%s(%s)' % (fn, ', '.join(args))
            raise ExtractionBreak('vector method %s' % m)
        if (ot, m) in self.struct_methods:
            fi = self.struct_methods[(ot, m)]
            self.fire('struct_method')
            self.count_call(fi.cname)
            args = ([] if fi.static else [self.em_addr(obj, arrow)]) + [self.em(x) for x in a]
            s = '%s(%s)' % (fi.cname, ', '.join(args))
            return '(*%s)' % s if fi.ref else s
        raise ExtractionBreak('method %s on type %s' % (m, ot))

    # ---------------------------------------------------------------- statements
    def marker(self, kind, what):
        return '/*@%s %s %s*/' % (kind, self.fn, what)

    def emit_block_items(self, items, ind):
        out = ''
        for st in items:
            out += self.emit_stmt(st, ind)
        return out

    def call_anchors(self, before_counts):
        """names of calls made since before_counts: [(name, ordinal)]"""
        out = []
        for nme, c in self.call_no.items():
            b = before_counts.get(nme, 0)
            for kk in range(b + 1, c + 1):
                out.append((nme, kk))
        return out

    def emit_stmt(self, st, ind='    '):
        before = dict(self.call_no)
        self.pre = []
        body = self._emit_stmt(st, ind)
        pre = ''.join(ind + p + '\n' for p in self.pre)
        self.pre = []
        if st[0] in ('block', 'if', 'while', 'for', 'rangefor', 'do', 'switch'):
            return pre + body
        anchors = self.call_anchors(before)
        a0 = ''.join(ind + self.marker('ghost', 'before:%s#%d' % a) + '\n' for a in anchors)
        a1 = ''.join(ind + self.marker('ghost', 'after:%s#%d' % a) + '\n' for a in anchors)
        return a0 + pre + body + a1

    def cond_with_anchors(self, e):
        return self.em(e)

    def as_block(self, st, ind, head='', tail=''):
        """emit st as a braced block with optional ghost text right after '{' and before '}'"""
        inner = st[1] if st[0] == 'block' else [st]
        return ind + '{\n' + head + self.emit_block_items(inner, ind + '    ') + tail + ind + '}\n'

    def _emit_stmt(self, st, ind):
        k = st[0]
        if k == 'block':
            saved_env = dict(self.env)
            s = ind + '{\n' + self.emit_block_items(st[1], ind + '    ') + ind + '}\n'
            # C scoping equals C++ scoping here; restore shadowed names
            for n in list(self.env):
                if n not in saved_env:
                    pass
            return s
        if k == 'empty':
            return ind + ';\n'
        if k == 'using':
            self.fire('local_using')
            if st[1] not in self.typemap:
                raise ExtractionBreak('local type alias %s is not bound by the unit' % st[1])
            return ''
        if k == 'pragma':
            self.fire('drop_pragma_omp')
            return ind + '/* #pragma omp %s  (dropped: loop verified sequentially, see DESIGN 3.2) */\n' % st[1]
        if k == 'if':
            if st[4]:
                self.fire('if_constexpr')
            before = dict(self.call_no)
            c = self.em(st[1])
            anchors = self.call_anchors(before)
            s = ''.join(ind + self.marker('ghost', 'before:%s#%d' % a) + '\n' for a in anchors)
            s += '%sif (%s)\n' % (ind, c) + self.as_block(st[2], ind)
            if st[3]:
                if st[3][0] == 'if':
                    s += ind + 'else\n' + self.as_block(st[3], ind)
                else:
                    s += ind + 'else\n' + self.as_block(st[3], ind)
            return s
        if k in ('while', 'for', 'rangefor', 'do'):
            return self.emit_loop(st, ind)
        if k == 'switch':
            s = '%sswitch (%s)\n%s{\n' % (ind, self.em(st[1]), ind)
            for it in st[2]:
                if it[0] == 'case':
                    s += '%scase %s:\n' % (ind, self.em(it[1]))
                elif it[0] == 'default':
                    s += '%sdefault:\n' % ind
                else:
                    s += self.emit_stmt(it, ind + '    ')
            return s + ind + '}\n'
        if k == 'return':
            self.ret_no += 1
            g = ind + self.marker('ghost', 'ret%d' % self.ret_no) + '\n'
            if st[1] is None:
                return g + ind + 'return;\n'
            e = st[1]
            if e[0] == 'init' and e[1] is None:
                self.fire('return_brace')
                rt = self.ret
                if tkind(rt) == 'Pair' or rt in self.structs:
                    return g + '%sreturn (%s){%s};\n' % (ind, self.ctype(rt), ', '.join(self.em(x) for x in e[2]))
                raise ExtractionBreak('return {..} with return type %s' % rt)
            if getattr(self, 'ret_ref', False):
                return g + '%sreturn %s;\n' % (ind, self.em_addr(e))
            rt = self.ret
            et = self.strip_ref(self.typeof(e))
            if rt in SCALARS | {'K', 'V', 'T'} and et in self.conv:
                return g + '%sreturn %s;\n' % (ind, self.scalarize(e))
            if tkind(rt) == 'It' and getattr(self, 'ret_base', None):
                b = self.base_of(e)
                if b and b != self.ret_base and (b, self.ret_base) not in getattr(self, 'base_alias', set()):
                    raise ExtractionBreak('returned iterator has base %s, expected %s' % (b, self.ret_base))
            txt = self.em(e)
            if re.match(r'^[\w.>-]+$', txt):
                return g + '%sreturn %s;\n' % (ind, txt)
            # hoist the value so that ghost code at the ret anchor can name it (pgmv_ret)
            return '%s{\n%s    %s pgmv_ret = %s;\n    %s%s    return pgmv_ret;\n%s}\n' % (ind, ind, self.ctype(rt), txt, g, ind, ind)
        if k in ('break', 'continue'):
            return ind + k + ';\n'
        if k == 'throw':
            return self.emit_throw(st[1], ind)
        if k == 'expr':
            e = st[1]
            if e[0] == 'throwexpr':
                return self.emit_throw(e[1], ind)
            return ind + self.em(e) + ';\n'
        if k == 'sbind':
            names, e, refq = st[1], st[2], st[3]
            t = self.typeof(e)
            self.fire('structured_binding')
            self.tmp_no += 1
            tmp = 'pgmv_sb%d' % self.tmp_no
            if tkind(t) == 'Pair':
                parts = split_targs(tparam(t))
                fields = ['first', 'second']
            elif tkind(t) == 'Tuple':
                parts = split_targs(tparam(t))
                fields = ['_%d' % i for i in range(len(parts))]
            else:
                raise ExtractionBreak('structured binding of type %s' % t)
            s = '%s%s %s = %s;\n' % (ind, self.ctype(t), tmp, self.em(e))
            for nme, pt, fl in zip(names, parts, fields):
                self.env[nme] = pt
                s += '%s%s %s = %s.%s;\n' % (ind, self.ctype(pt), nme, tmp, fl)
            return s
        if k == 'decl':
            return self.emit_decl(st, ind)
        raise ExtractionBreak('emit: statement kind ' + k)

    def emit_throw(self, e, ind):
        self.fire('throw')
        name = 'exception'
        if e[0] == 'call' and e[1][0] == 'id':
            name = e[1][1].split('::')[-1]
        self.ret_no += 1
        g = ind + self.marker('ghost', 'ret%d' % self.ret_no) + '\n'
        if self.ret == 'void':
            return g + '%s{ pgmv_thrown = PGMV_EXC_%s; return; }\n' % (ind, name)
        ct = 'void *' if getattr(self, 'ret_ref', False) else self.ctype(self.ret)
        return g + '%s{ %s pgmv_unspecified; pgmv_thrown = PGMV_EXC_%s; return pgmv_unspecified; }\n' % (ind, ct, name)

    def emit_decl(self, st, ind):
        ty, decls = st[1], st[2]
        out = ''
        words = ty.split()
        is_auto = words[-1] == 'auto'
        const = 'const ' if 'const' in words[:-1] and not is_auto else ''
        for (refq, name, arr, init, kind) in decls:
            if is_auto:
                self.fire('auto')
                if init is None:
                    raise ExtractionBreak('auto without initialiser')
                if init[0] == 'lambda':
                    out += self.lift_lambda(name, init)
                    continue
                t = self.typeof(init)
            else:
                t = self.itype(ty)
                if t == '?':
                    raise ExtractionBreak('cannot translate declared type `%s`' % ty)
            if '*' in refq:
                t = 'Ptr<' + t + '>'
            if '&' in refq:
                # reference alias -> pointer
                if t == '?':
                    raise ExtractionBreak('cannot type reference `%s`' % name)
                self.fire('reference_local')
                if tkind(t) in ('It',):
                    raise ExtractionBreak('reference to iterator')
                self.env[name] = 'Ref<' + t + '>'
                out += '%s%s *%s = %s;\n' % (ind, self.ctype(t), name, self.em_addr(init))
                continue
            if t == '?':
                # untyped scalar temporaries are still valid C with __auto_type; they cannot be iterators or structs with operators
                self.env[name] = '?'
                self.fire('auto_untyped')
                out += '%s__auto_type %s = %s;\n' % (ind, name, self.em(init))
                continue
            self.env[name] = t
            if tkind(t) == 'It':
                self.fire('iter_local')
                b = self.base_of(init) if init is not None and init[0] != 'ctorargs' else None
                self.bases[name] = b
                if init is None:
                    out += '%ssize_t %s;\n' % (ind, name)
                else:
                    out += '%ssize_t %s = %s;\n' % (ind, name, self.em(init))
                continue
            ct = self.ctype(t)
            arrs = '[%s]' % self.em(arr) if arr is not None else ''
            if init is None:
                if tkind(t) == 'Vec':
                    self.fire('vec_local')
                    self.count_call('vec_%s_new' % self.cname_of_type(tparam(t)))
                    out += '%s%s %s = vec_%s_new(0);\n' % (ind, ct, name, self.cname_of_type(tparam(t)))
                else:
                    out += '%s%s%s %s%s;\n' % (ind, const, ct, name, arrs)
                continue
            if init[0] == 'ctorargs':
                args = init[1]
                if tkind(t) == 'Vec':
                    self.fire('vec_local')
                    fn = 'vec_%s_new' % self.cname_of_type(tparam(t))
                    self.count_call(fn)
                    out += '%s%s %s = %s(%s);\n' % (ind, ct, name, fn, self.em_args(args) if args else '0')
                elif (t, t) in self.struct_methods:
                    fi = self.struct_methods[(t, t)]
                    self.fire('ctor_call')
                    self.count_call(fi.cname)
                    out += '%s%s %s;\n%s%s(%s);\n' % (ind, ct, name, ind, fi.cname, ', '.join(['&' + name] + [self.em(x) for x in args]))
                elif len(args) == 1:
                    out += '%s%s%s %s = %s;\n' % (ind, const, ct, name, self.em(args[0]))
                else:
                    raise ExtractionBreak('constructor call for type %s' % t)
                continue
            if init[0] == 'init':
                self.fire('brace_init')
                out += '%s%s%s %s%s = {%s};\n' % (ind, const, ct, name, arrs, ', '.join(self.em(x) for x in init[2]))
                continue
            it = self.strip_ref(self.typeof(init))
            if t in SCALARS | {'K'} and it in self.conv:
                out += '%s%s%s %s = %s;\n' % (ind, const, ct, name, self.scalarize(init))
            else:
                out += '%s%s%s %s = %s;\n' % (ind, const, ct, name, self.em(init))
        return out

    # ---------------------------------------------------------------- loops
    def emit_loop(self, st, ind):
        k = st[0]
        self.loop_no += 1
        n = self.loop_no
        contract = ind + '    ' + self.marker('loop', str(n)) + '\n'
        gbegin = ind + '    ' + self.marker('ghost', 'loop%d.begin' % n) + '\n'
        gend = ind + '    ' + self.marker('ghost', 'loop%d.end' % n) + '\n'
        gafter = ind + self.marker('ghost', 'loop%d.after' % n) + '\n'
        gbefore = ind + self.marker('ghost', 'loop%d.before' % n) + '\n'
        if k == 'while':
            c = self.em(st[1])
            return gbefore + '%swhile (%s)\n' % (ind, c) + contract + self.as_block(st[2], ind, gbegin, gend) + gafter
        if k == 'do':
            raise ExtractionBreak('do-while loops are not in the verified subset')
        if k == 'for':
            init, c, inc, body = st[1], st[2], st[3], st[4]
            s = ind + '{\n'
            i2 = ind + '    '
            if init is not None:
                s += self._emit_stmt(init, i2)
            s += i2 + self.marker('ghost', 'loop%d.before' % n) + '\n'
            s += '%sfor (; %s; %s)\n' % (i2, self.em(c) if c else '', self.em(inc) if inc else '')
            s += i2 + '    ' + self.marker('loop', str(n)) + '\n'
            s += self.as_block(body, i2, i2 + '    ' + self.marker('ghost', 'loop%d.begin' % n) + '\n',
                               i2 + '    ' + self.marker('ghost', 'loop%d.end' % n) + '\n')
            s += i2 + self.marker('ghost', 'loop%d.after' % n) + '\n'
            s += ind + '}\n'
            return s
        if k == 'rangefor':
            ty, ref, name, rng, body = st[1], st[2], st[3], st[4], st[5]
            rt = self.strip_ref(self.typeof(rng))
            if tkind(rt) != 'Vec':
                raise ExtractionBreak('range-for over type %s' % rt)
            self.fire('range_for')
            el = tparam(rt)
            v = self.em_paren(rng)
            iv = 'pgmv_i%d' % n
            i2 = ind + '    '
            s = ind + '{\n'
            s += '%ssize_t %s = 0;\n' % (i2, iv)
            s += i2 + self.marker('ghost', 'loop%d.before' % n) + '\n'
            s += '%sfor (; %s < %s.size; ++%s)\n' % (i2, iv, v, iv)
            s += i2 + '    ' + self.marker('loop', str(n)) + '\n'
            if '&' in ref:
                self.env[name] = 'Ref<' + el + '>'
                head = '%s    %s *%s = &%s.data[%s];\n' % (i2, self.ctype(el), name, v, iv)
            else:
                self.env[name] = el
                head = '%s    %s %s = %s.data[%s];\n' % (i2, self.ctype(el), name, v, iv)
            head += i2 + '    ' + self.marker('ghost', 'loop%d.begin' % n) + '\n'
            s += self.as_block(body, i2, head, i2 + '    ' + self.marker('ghost', 'loop%d.end' % n) + '\n')
            s += i2 + self.marker('ghost', 'loop%d.after' % n) + '\n'
            s += ind + '}\n'
            return s
        raise ExtractionBreak('loop kind ' + k)

    # ---------------------------------------------------------------- lambdas
    def lift_lambda(self, name, lam):
        """`auto name = [caps](params) { body };`  ->  static function taking the captured locals by pointer."""
        caps_spec, params, body = lam[1], lam[2], lam[3]
        cfg = getattr(self, 'lambda_cfg', {}).get(name)
        if cfg is None:
            raise ExtractionBreak('local lambda %s is not described by the unit' % name)
        if 'alias' in cfg:
            # a forwarding lambda ([in](auto j){ return in(j); }) is identified with the functor binding it forwards to
            self.fire('lambda_alias')
            self.env[name] = cfg['alias']
            return ''
        self.fire('lambda_lift')
        sub = Ctx(cls=self.cls, fields=self.fields, methods=self.methods, structs=self.structs, struct_methods=self.struct_methods,
                  funcs=self.funcs, ops=self.ops, callops=self.callops, conv=self.conv, typemap=self.typemap, consts=self.consts,
                  ret=cfg.get('ret', 'void'), selfname=self.selfname, lambdas=self.lambdas)
        sub.lambda_cfg = getattr(self, 'lambda_cfg', {})
        sub.base_alias = getattr(self, 'base_alias', set())
        sub.fn = self.fn + '__' + name
        # captured variables: every enclosing local (or self) the body mentions
        used = set(x[1] for x in _ids(body))
        pnames = [p[1] for p in params]
        caps = [v for v in self.env if v in used and v not in pnames and not self.env[v].startswith('Fn:')]
        has_self = self.selfname in ('self',) and any(u in self.fields or u in self.methods for u in used)
        sig_parts = []
        if has_self:
            sig_parts.append(cfg.get('self_decl', '%s *self' % self.cls))
        for v in caps:
            t = self.env[v]
            inner = t if tkind(t) != 'Ref' else tparam(t)
            sub.env[v] = 'Ref<' + inner + '>' if tkind(inner) != 'It' else inner
            if tkind(inner) == 'It':
                raise ExtractionBreak('lambda captures iterator %s' % v)
            sig_parts.append('%s *%s' % (self.ctype(inner), v))
        for v, t in self.env.items():
            if t.startswith('Fn:') and v in used:
                sub.env[v] = t
        ptypes = cfg.get('params', {})
        for (pty, pn) in params:
            t = ptypes.get(pn) or self.itype(pty)
            if t in ('?', 'auto'):
                raise ExtractionBreak('cannot type lambda parameter %s of %s' % (pn, name))
            sub.env[pn] = t
            sig_parts.append('%s %s' % (self.ctype(t), pn))
        cname = self.fn + '__' + name
        text = sub.emit_block_items(body[1], '    ')
        sig = 'static %s %s(%s)' % (self.ctype(sub.ret), cname, ', '.join(sig_parts))
        self.lifted.append((cname, sig, text, sub))
        for r, c in sub.fired.items():
            self.fired[r] = self.fired.get(r, 0) + c
        self.lifted += sub.lifted
        self.lambdas[name] = dict(cname=cname, caps=(['self'] if has_self else []) + caps, ret=sub.ret)
        return ''


def _ids(node):
    if isinstance(node, tuple):
        if node and node[0] == 'id':
            yield node
        for x in node:
            yield from _ids(x)
    elif isinstance(node, list):
        for x in node:
            yield from _ids(x)
