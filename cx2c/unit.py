"""cx2c.unit -- assemble the C translation unit of a contract unit from /repo's working tree:
locate -> parse -> typed emission -> weave contracts/loop contracts/ghost blocks from the spec files."""
import os
import re
import copy
from scan import Source, ExtractionBreak
from cxparse import parse_body
from emit import Ctx, FuncInfo, tkind, tparam

VERIF = os.path.dirname(os.path.dirname(os.path.abspath(__file__)))


class FuncDesc:
    def __init__(self, key, src, name, sig, cls=None, cls_ordinal=0, ordinal=0, ret='void', ret_base=None, ret_ref=False,
                 params=None, bases=None, static=False, typemap=None, consts=None, lambdas=None, env=None, base_alias=None,
                 must_fire=(), family=None, typenames=(), templates=(), self_cls=None, ctor_init=None, selfname='self', as_base=False, lead_base=(), targs_as_args=False, call_base=None, params_complete=False, template=None, local_vectors_grow=False):
        self.key, self.src, self.name, self.sig = key, src, name, sig
        self.cls, self.cls_ordinal, self.ordinal = cls, cls_ordinal, ordinal
        self.ret, self.ret_base, self.ret_ref = ret, ret_base, ret_ref
        self.params = params or {}
        self.bases = bases or {}
        self.static = static
        self.typemap = typemap or {}
        self.consts = consts or {}
        self.lambdas = lambdas or {}
        self.env = env or {}
        self.base_alias = set(base_alias or ())
        self.must_fire = tuple(must_fire)
        self.family = family
        self.typenames = tuple(typenames)
        self.templates = tuple(templates)
        self.self_cls = self_cls or cls
        self.ctor_init = ctor_init   # for constructors: {'base': cname of base-class/delegated ctor}
        self.selfname = selfname
        self.as_base = as_base
        self.lead_base = tuple(lead_base)
        self.local_vectors_grow = local_vectors_grow
        self.targs_as_args = targs_as_args
        self.call_base = call_base
        self.params_complete = params_complete
        self.template = template


class ClassDesc:
    def __init__(self, key, src, cxx=None, ordinal=0, packed=False, field_types=None, skip=(), methods=None, extra_fields=(),
                 base_struct=None, consts=None):
        self.key, self.src, self.cxx, self.ordinal, self.packed = key, src, cxx or key, ordinal, packed
        self.field_types = field_types or {}
        self.skip = set(skip)
        self.methods = methods or {}
        self.extra_fields = list(extra_fields)   # (ctype text, name): ghost/stamp fields appended by the unit
        self.base_struct = base_struct           # C struct embedded first (single inheritance)
        self.consts = consts or {}


class Family:
    """Shared description of a group of classes: type map, struct layouts, operators."""

    def __init__(self, name, typemap=None, classes=(), ops=None, callops=None, conv=None, funcs=None, struct_methods=None,
                 typenames=(), templates=(), extra_structs=None, floating=('float', 'double', 'long double', 'Floating'), verbatim=()):
        self.name = name
        self.typemap = typemap or {}
        self.classes = {c.key: c for c in classes}
        self.ops = ops or {}
        self.callops = callops or {}
        self.conv = conv or {}
        self.funcs = funcs or {}
        self.struct_methods = struct_methods or {}
        self.typenames = set(typenames)
        self.templates = set(templates)
        self.extra_structs = extra_structs or {}   # name -> {field: type} for structs not parsed from a class
        self.floating = set(floating)
        self.verbatim = list(verbatim)


class Extraction:
    """Result of extracting one function."""

    def __init__(self):
        self.text = ''
        self.lifted = ''
        self.fired = {}
        self.l0 = self.l1 = 0
        self.src = ''
        self.calls = {}
        self.loops = 0
        self.returns = 0


_src_cache = {}


def source(repo, rel):
    p = os.path.join(repo, rel)
    key = (p, os.path.getmtime(p))
    if key not in _src_cache:
        _src_cache[key] = Source(p)
    return _src_cache[key]


class UnitBuilder:
    def __init__(self, repo, family, funcs):
        self.repo = repo
        self.fam = family
        self.funcs = funcs          # key -> FuncDesc  (all functions known to the family)
        self.struct_fields = {}     # struct key -> {field: internal type}
        self.struct_text = {}
        self.const_text = []
        self.consts = {}            # class key -> {name: (cexpr, type)}
        self.mutable_fields = []
        self._scan_classes()
        self._check_verbatim()

    # ------------------------------------------------------------ classes -> C structs
    def base_ctx(self, cls=None):
        fam = self.fam
        structs = dict(fam.extra_structs)
        structs.update(self.struct_fields)
        methods = {}
        consts = {}
        if cls and cls in fam.classes:
            for m, fk in fam.classes[cls].methods.items():
                fd = self.funcs[fk]
                methods[m] = FuncInfo(fd.key, fd.ret, getattr(fd, 'call_base', None) or fd.ret_base, fd.static, ref=fd.ret_ref, as_base=getattr(fd, 'as_base', False), lead_base=getattr(fd, 'lead_base', ()),
                                      params=list(fd.params.values()) if getattr(fd, 'params_complete', False) else None)
                methods[m].targs_as_args = getattr(fd, 'targs_as_args', False)
                methods[m].template = getattr(fd, 'template', None)
            consts.update(self.consts.get(cls, {}))
            consts.update(fam.classes[cls].consts)
        sm = dict(fam.struct_methods)
        for ck, cd in fam.classes.items():
            for m, fk in cd.methods.items():
                fd = self.funcs[fk]
                sm.setdefault((ck, m), FuncInfo(fd.key, fd.ret, fd.ret_base, fd.static, ref=fd.ret_ref, as_base=getattr(fd, 'as_base', False)))
        ctx = Ctx(cls=cls, fields=structs.get(cls, {}) if cls else {}, methods=methods, structs=structs, struct_methods=sm,
                  funcs=fam.funcs, ops=fam.ops, callops=fam.callops, conv=fam.conv, typemap=fam.typemap, consts=consts)
        ctx.floating = fam.floating
        return ctx

    def _scan_classes(self):
        fam = self.fam
        # two passes so that field types may refer to other structs of the family
        for ck, cd in fam.classes.items():
            self.struct_fields[ck] = {}
        for ck, cd in fam.classes.items():
            src = source(self.repo, cd.src)
            scope = src.find_class(cd.cxx, cd.ordinal)
            ctx = self.base_ctx()
            ctx.typemap = dict(fam.typemap)
            fields = {}
            lines = []
            consts = {}
            if cd.base_struct:
                bf = self.struct_fields.get(cd.base_struct) or fam.extra_structs.get(cd.base_struct, {})
                fields.update(bf)
                lines.append('  /* base class %s (fields flattened in declaration order) */' % cd.base_struct)
                for fn_, ft_ in bf.items():
                    lines.append('  %s %s;' % (ctx.ctype(ft_), fn_))
            for f in src.class_fields(scope):
                nm = f['name']
                if nm in cd.skip:
                    continue
                if f['static']:
                    if f['init'] is not None and nm not in cd.consts:
                        t = cd.field_types.get(nm) or ctx.itype(f['type'])
                        consts[nm] = ('%s_%s' % (ck, nm), t, f['init'])
                    continue
                t = cd.field_types.get(nm) or ctx.itype(f['type'])
                if t == '?' or (t not in self.struct_fields and tkind(t) == '' and t not in fam.typemap.values()
                                and not re.match(r'^(u?int\d+_t|size_t|bool|int|char|float|double|long|unsigned|long double)$', t)):
                    raise ExtractionBreak('class %s: cannot translate the type `%s` of field %s' % (cd.cxx, f['type'], nm))
                if f['array']:
                    m = re.match(r'\[(\w+)\]$', f['array'])
                    if not m:
                        raise ExtractionBreak('class %s: array field %s' % (cd.cxx, nm))
                    fields[nm] = 'Arr<%s>' % t
                    lines.append('  %s %s[%s];' % (ctx.ctype(t), nm, m.group(1)))
                else:
                    fields[nm] = t
                    lines.append('  %s %s;' % (ctx.ctype(t), nm))
                if f['mutable']:
                    self.mutable_fields.append('%s::%s' % (cd.cxx, nm))
            for (ct, nm) in cd.extra_fields:
                lines.append('  %s %s; /* ghost */' % (ct, nm))
            self.struct_fields[ck] = fields
            attr = ' __attribute__((packed))' if cd.packed else ''
            self.struct_text[ck] = 'typedef struct%s %s_s {\n%s\n} %s;\n' % (attr, ck, '\n'.join(lines), ck)
            self.consts[ck] = consts
        # static constexpr members -> #define Class_name ((T)(expr)), emitted from the parsed initialiser
        for ck, consts in self.consts.items():
            for nm, (cname, t, init) in list(consts.items()):
                ctx = self.base_ctx(ck)
                ctx.consts = {k: (v[0], v[1]) for k, v in consts.items()}
                try:
                    ast = parse_body('return ' + init + ';', self._typenames(), self._templates())
                    e = ast[1][0][1]
                    txt = ctx.em(e)
                    if t == 'auto':
                        t = ctx.typeof(e)
                    self.const_text.append('#define %s ((%s)(%s))' % (cname, ctx.ctype(t), txt))
                except Exception as ex:     # noqa: an initialiser the extractor cannot render (e.g. a call of a constexpr helper)
                    # the constant is poisoned instead of breaking every unit of the class: a unit that uses it does not compile
                    # (extraction break = UNDECIDED for that unit), a unit that does not use it is unaffected
                    if t == 'auto':
                        t = 'size_t'
                    self.const_text.append('/* static constexpr %s: initialiser not extractable (%s) */\n#define %s PGMV_UNEXTRACTABLE_CONSTANT_%s'
                                           % (nm, str(ex).replace('*/', '* /')[:120], cname, cname))
                consts[nm] = (cname, t)

    def _check_verbatim(self):
        """one-line operators that the family renders by hand (prelude text) are compared, whitespace-normalised, with the
        body found in the working tree: an edit of such an operator is an extraction break, never a silent mismatch"""
        for (src_rel, cls, ordinal, name, fn_ord, expected) in getattr(self.fam, 'verbatim', []):
            src = source(self.repo, src_rel)
            scope = src.find_class(cls, ordinal) if cls else None
            f = src.find_function(name, fn_ord, scope)
            got = re.sub(r'\s+', ' ', f['body']).strip()
            if got != expected:
                raise ExtractionBreak('hand-rendered operator %s::%s changed in the working tree: `%s` (expected `%s`)' % (cls, name, got, expected))

    def _typenames(self):
        return set(self.fam.typenames) | set(self.fam.typemap) | set(self.struct_fields) | set(self.fam.extra_structs)

    def _templates(self):
        return set(self.fam.templates)

    # ------------------------------------------------------------ functions
    def extract(self, key, pack=None):
        fd = self.funcs[key]
        src = source(self.repo, fd.src)
        scope = src.find_class(fd.cls, fd.cls_ordinal) if fd.cls else None
        f = src.find_function(fd.name, fd.ordinal, scope)
        # parameter names of the C++ declaration must be the ones the unit describes (a renamed
        # parameter is an extraction break, not a silent mismatch)
        pnames = [re.sub(r'.*?(\w+)\s*(=[^,]*)?$', r'\1', p.strip()) for p in _split_params(f['params']) if p.strip()]
        missing = [p for p in fd.params if p not in pnames]
        if missing:
            # a renamed parameter: when the unit describes every parameter of the declaration (same count, same order) the C++ names are
            # mapped back positionally to the names the contract uses, provided the contract's name is not otherwise used in the body;
            # anything else stays an extraction break, never a silent mismatch
            unit_names = list(fd.params)
            body_txt = f['body'] + (f['init'] or '')
            if len(unit_names) != len(pnames) or any(un in pnames and pnames.index(un) != i for i, un in enumerate(unit_names)):
                raise ExtractionBreak('%s: parameter %s not found in C++ declaration (%s)' % (key, missing[0], pnames))
            for un, cn in zip(unit_names, pnames):
                if un == cn:
                    continue
                if re.search(r'\b%s\b' % re.escape(un), body_txt) or cn in unit_names:
                    raise ExtractionBreak('%s: parameter %s renamed to %s in the C++ declaration and %s is used otherwise in the body' % (key, un, cn, un))
            f = dict(f)
            for un, cn in zip(unit_names, pnames):
                if un != cn:
                    f['body'] = re.sub(r'\b%s\b' % re.escape(cn), un, f['body'])
                    if f['init']:
                        f['init'] = re.sub(r'\b%s\b' % re.escape(cn), un, f['init'])
        ctx = self.base_ctx(fd.self_cls)
        ctx.typemap = dict(self.fam.typemap)
        ctx.typemap.update(fd.typemap)
        ctx.consts.update(fd.consts)
        ctx.fn = key
        ctx.ret = fd.ret if not fd.as_base else 'Ptr<' + tparam(fd.ret) + '>'
        ctx.ret_ref = fd.ret_ref
        ctx.ret_base = fd.ret_base
        ctx.base_alias = fd.base_alias
        ctx.lambda_cfg = fd.lambdas
        ctx.selfname = fd.selfname
        ctx.local_vectors_grow = getattr(fd, 'local_vectors_grow', False)
        ctx.pack = pack
        for p, t in fd.params.items():
            ctx.env[p] = t
        for p, t in fd.env.items():
            ctx.env[p] = t
        for p, b in fd.bases.items():
            ctx.bases[p] = b
        tn = self._typenames() | set(fd.typenames) | set(fd.typemap)
        ast = parse_body(f['body'], tn, self._templates() | set(fd.templates))
        head = ''
        if f['init']:
            head = self._ctor_init(fd, f['init'], ctx, tn)
        body = ctx.emit_block_items(ast[1], '    ')
        ex = Extraction()
        ex.fired = ctx.fired
        ex.l0, ex.l1, ex.src = f['l0'], f['l1'], fd.src
        ex.calls = dict(ctx.call_no)
        ex.loops = ctx.loop_no
        ex.returns = ctx.ret_no
        for r in fd.must_fire:
            if not ctx.fired.get(r):
                raise ExtractionBreak('%s: must-fire rule `%s` did not fire (fired: %s)' % (key, r, sorted(ctx.fired)))
        lifted = ''
        protos = ''
        for (cname, sig, text, sub) in ctx.lifted:
            protos += sig + ';\n'
            lifted += '/* lifted local lambda of %s */\n%s\n/*@contract %s*/\n{\n    /*@ghost %s entry*/\n%s}\n\n' % (key, sig, cname, cname, text)
        ex.lifted = lifted
        ex.lifted_protos = protos
        ex.text = ('/* extracted from %s:%d-%d  (%s%s) */\n%s\n/*@contract %s*/\n{\n    /*@ghost %s entry*/\n%s%s}\n'
                   % (fd.src, f['l0'], f['l1'], (fd.cls + '::') if fd.cls else '', fd.name, fd.sig, key, key, head, body))
        _residue_scan(key, ex.text + ex.lifted)
        return ex

    def _ctor_init(self, fd, init, ctx, tn):
        """constructor initialiser list -> assignments in declaration order of appearance"""
        out = ''
        txt = init.lstrip(':').strip()
        # split top-level commas
        items = []
        d = 0
        cur = ''
        for ch in txt:
            if ch in '({':
                d += 1
            elif ch in ')}':
                d -= 1
            if ch == ',' and d == 0:
                items.append(cur.strip())
                cur = ''
            else:
                cur += ch
        if cur.strip():
            items.append(cur.strip())
        ctx.fire('ctor_init_list')
        for it in items:
            m = re.match(r'^([\w:<>, ]+?)\s*[({](.*)[)}]$', it, re.S)
            if not m:
                raise ExtractionBreak('constructor initialiser `%s`' % it)
            nm, args = m.group(1).strip(), m.group(2).strip()
            if nm in ctx.fields:
                ft = ctx.fields[nm]
                if args == '':
                    if tkind(ft) == 'Vec':
                        out += '    self->%s.size = 0;\n' % nm
                    elif ft in ctx.structs:
                        dflt = ctx.struct_methods.get((ft, 'default'))
                        if dflt is None:
                            raise ExtractionBreak('default-initialised member %s of type %s' % (nm, ft))
                        out += '    %s(&self->%s);\n' % (dflt.cname, nm)
                    else:
                        out += '    self->%s = 0;\n' % nm
                else:
                    ast = parse_body('return ' + args + ';', tn, self._templates())
                    e = ast[1][0][1]
                    if e[0] == 'comma' or tkind(ft) == 'Vec':
                        raise ExtractionBreak('member initialiser `%s`' % it)
                    out += '    self->%s = %s;\n' % (nm, ctx.em(e))
            elif fd.ctor_init and nm.split('<')[0] in fd.ctor_init:
                callee = fd.ctor_init[nm.split('<')[0]]
                ast = parse_body('pgmv_f(' + args + ');', tn, self._templates())
                a = ast[1][0][1][2]
                ctx.count_call(callee)
                out += '    /*@ghost %s before:%s#%d*/\n    %s(%s);\n    /*@ghost %s after:%s#%d*/\n' % (
                    fd.key, callee, ctx.call_no[callee], callee, ', '.join(['self'] + [ctx.em(x) for x in a]), fd.key, callee, ctx.call_no[callee])
            else:
                raise ExtractionBreak('constructor initialiser for unknown member `%s`' % nm)
        return out

    def extract_macro(self, src_rel, name):
        return source(self.repo, src_rel).find_macro(name)


def _split_params(p):
    out = []
    d = 0
    cur = ''
    for ch in p:
        if ch in '(<[':
            d += 1
        elif ch in ')>]':
            d -= 1
        if ch == ',' and d == 0:
            out.append(cur)
            cur = ''
        else:
            cur += ch
    if cur.strip():
        out.append(cur)
    return out


def _residue_scan(key, text):
    body = re.sub(r'/\*.*?\*/', '', text, flags=re.S)
    body = re.sub(r'"(?:\\.|[^"\\])*"', '""', body)
    for pat, what in ((r'::', 'scope operator'), (r'\bauto\b', 'auto'), (r'\bthrow\b', 'throw'), (r'\bconstexpr\b', 'constexpr'),
                      (r'\[&\]|\[=\]', 'lambda introducer'), (r'\btemplate\b', 'template'), (r'\bstd\b', 'std'),
                      (r'\bnullptr\b', 'nullptr'), (r'\bthis\b', 'this')):
        m = re.search(pat, body)
        if m:
            ctx = body[max(0, m.start() - 40):m.end() + 40].replace('\n', ' ')
            raise ExtractionBreak('%s: C++ residue (%s) in emitted text near `%s`' % (key, what, ctx))


# ---------------------------------------------------------------------------------------------------
# spec files and weaving
# ---------------------------------------------------------------------------------------------------
class Spec:
    """contracts/spec/*.spec: sections introduced by lines
         //@contract <fn>        function contract (proved when enforced, used when replaced)
         //@assumed <fn>         assumed contract (only ever used for replacement; reported as [A])
         //@loop <fn> <k>        loop contract of the k-th loop of <fn>
         //@ghost <fn> <anchor>  ghost statements (entry, retK, loopK.before/.begin/.end/.after, before:/after:<callee>#k)
         //@decl <name>          C declarations (ghost state, lemma prototypes); pulled in by name"""

    def __init__(self):
        self.sections = {}
        self.files = []

    def load(self, path):
        cur = None
        self.files.append(path)
        for ln, line in enumerate(open(path), 1):
            m = re.match(r'^//@(\w+)\s+(.*?)\s*$', line)
            if m:
                cur = (m.group(1),) + tuple(m.group(2).split())
                if cur in self.sections:
                    raise SystemExit('duplicate spec section %r in %s' % (cur, path))
                self.sections[cur] = {'text': '', 'file': path, 'line': ln + 1}
            elif cur is not None:
                if line.lstrip().startswith('//'):
                    line = '\n'      # line comments are not part of a section (keeps line numbers)
                self.sections[cur]['text'] += line
        return self

    def get(self, *key):
        s = self.sections.get(tuple(key))
        return s['text'] if s else None


def weave(text, spec, enforce=(), stubs=(), mode='cbmc'):
    """Replace /*@contract f*/, /*@loop f k*/ and /*@ghost f anchor*/ markers by spec text."""
    used = set()

    def repl(m):
        kind, fn, rest = m.group(1), m.group(2), m.group(3).strip()
        if kind == 'contract':
            t = spec.get('contract', fn)
            if t is None or fn not in enforce:
                return ''
            used.add(('contract', fn))
            return '#ifdef PGMV_CBMC\n' + t.rstrip() + '\n#endif'
        if kind == 'loop':
            t = spec.get('loop', fn, rest)
            if t is None:
                return ''
            used.add(('loop', fn, rest))
            return '#ifdef PGMV_CBMC\n' + t.rstrip() + '\n#endif'
        if kind == 'ghost':
            t = spec.get('ghost', fn, rest)
            if t is None:
                return ''
            used.add(('ghost', fn, rest))
            return '\n#ifdef PGMV_CBMC\n' + t.rstrip() + '\n#endif\n'
        return m.group(0)

    out = re.sub(r'/\*@(contract|loop|ghost) (\w+) ?([^*]*)\*/', repl, text)
    return out, used
