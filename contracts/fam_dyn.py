"""Family `dyn`: DynamicPGMIndex (include/pgm/pgm_index_dynamic.hpp) -- C05, C15, C06 (+C16/C17/C20)."""
from unit import Family, ClassDesc, FuncDesc
from emit import FuncInfo

HPP = 'include/pgm/pgm_index_dynamic.hpp'

FAMILY = Family(
    'dyn',
    typemap={'K': 'K', 'V': 'V', 'Item': 'Item', 'Level': 'Vec<Item>', 'PGMType': 'PGMType', 'iterator': 'DynIt', 'Iterator': 'DynIt',
             'ApproxPos': 'ApproxPos', 'std::vector<Level>': 'Vec<vec_Item>', 'std::vector<PGMType>': 'Vec<PGMType>',
             'typename Level::iterator': 'It<Item>', 'typename Level::const_iterator': 'It<Item>',
             'std::vector<std::pair<K, V>>': 'Vec<PairKV>', 'std::vector<std::pair<K,V>>': 'Vec<PairKV>', 'PairKV': 'PairKV'},
    classes=[
        ClassDesc('Item', HPP, 'ItemA', packed=True, consts={'tombstone': ('Item_tombstone', 'V')}, methods={'deleted': 'Item_deleted'}),
        ClassDesc('Dyn', HPP, 'DynamicPGMIndex', field_types={'levels': 'Vec<vec_Item>', 'pgms': 'Vec<PGMType>'},
                  methods={'level': 'Dyn_level', 'pgm': 'Dyn_pgm', 'has_pgm': 'Dyn_has_pgm', 'max_size': 'Dyn_max_size',
                           'max_fully_allocated_level': 'Dyn_max_fully_allocated_level', 'ceil_log_base': 'Dyn_ceil_log_base',
                           'ceil_log2': 'Dyn_ceil_log2', 'lower_bound_bl': 'Dyn_lower_bound_bl', 'merge': 'Dyn_merge', 'end': 'Dyn_end',
                           'find': 'Dyn_find', 'count': 'Dyn_count', 'insert': 'Dyn_insert', 'pairwise_merge': 'Dyn_pairwise_merge', 'range': 'Dyn_range'}),
    ],
    extra_structs={'ApproxPos': {'pos': 'size_t', 'lo': 'size_t', 'hi': 'size_t'}, 'PGMType': {'n': 'size_t', 'stamp': 'size_t'},
                   'DynIt': {'level': 'uint8_t', 'idx': 'size_t'}, 'PairKV': {'first': 'K', 'second': 'V'}, 'vec_Item': {'data': 'Ptr<Item>', 'size': 'size_t', 'cap': 'size_t'}},
    conv={'Item': 'first'},
    ops={('DynIt', '==', 'DynIt'): ('bool', 'DynIt_eq'), ('DynIt', '!=', 'DynIt'): ('bool', 'DynIt_ne')},
    # Iterator::operator== / != are rendered by hand over the (level, position) form of the iterator; an edit of either is an extraction break
    verbatim=[(HPP, 'Iterator', 0, 'operator==', 0, 'return current.level_number == rhs.current.level_number && current.iterator == rhs.current.iterator;'),
              (HPP, 'Iterator', 0, 'operator!=', 0, 'return !(*this == rhs);')],
    struct_methods={('PGMType', 'search'): FuncInfo('PGMType_search', 'ApproxPos'), ('DynIt', 'DynIt'): FuncInfo('DynIt_make', 'DynIt'),
                    ('PGMType', 'PGMType'): FuncInfo('PGMType_build', 'PGMType', lead_base=(0,))},
    typenames={'K', 'V', 'Item', 'Level', 'PGMType', 'iterator', 'RandomIt', 'In1', 'In2', 'OutIterator'},
    templates={'merge'},
)
# `Level` values inside vector<Level> are rendered as the struct vec_Item; Vec<Item> and vec_Item are the same C type
FAMILY.typemap['vec_Item'] = 'Vec<Item>'

FUNCS = {}


def F(*a, **kw):
    kw.setdefault('cls', 'DynamicPGMIndex')
    kw.setdefault('self_cls', 'Dyn')
    fd = FuncDesc(*a, **kw)
    FUNCS[fd.key] = fd
    return fd


F('Item_deleted', HPP, 'deleted', '_Bool Item_deleted(const Item *self)', cls='ItemA', self_cls='Item', ret='bool')
F('Dyn_level', HPP, 'level', 'vec_Item *Dyn_level(const Dyn *self, uint8_t level)', ret='Vec<Item>', ret_ref=True, params={'level': 'uint8_t'})
F('Dyn_pgm', HPP, 'pgm', 'PGMType *Dyn_pgm(const Dyn *self, uint8_t level)', ret='PGMType', ret_ref=True, params={'level': 'uint8_t'})
F('Dyn_has_pgm', HPP, 'has_pgm', '_Bool Dyn_has_pgm(const Dyn *self, uint8_t level)', ret='bool', params={'level': 'uint8_t'})
F('Dyn_max_size', HPP, 'max_size', 'size_t Dyn_max_size(const Dyn *self, uint8_t level)', ret='size_t', params={'level': 'uint8_t'})
F('Dyn_max_fully_allocated_level', HPP, 'max_fully_allocated_level', 'uint8_t Dyn_max_fully_allocated_level(const Dyn *self)', ret='uint8_t')
F('Dyn_ceil_log_base', HPP, 'ceil_log_base', 'uint8_t Dyn_ceil_log_base(const Dyn *self, size_t n)', ret='uint8_t', params={'n': 'size_t'})
F('Dyn_ceil_log2', HPP, 'ceil_log2', 'uint8_t Dyn_ceil_log2(size_t n)', ret='uint8_t', params={'n': 'size_t'}, static=True)
F('Dyn_lower_bound_bl', HPP, 'lower_bound_bl', 'size_t Dyn_lower_bound_bl(const Item *A, size_t first, size_t last, K x)', ret='It<Item>', ret_base='A', call_base='%b0', params_complete=True,
  params={'first': 'It<Item>', 'last': 'It<Item>', 'x': 'K'}, bases={'first': 'A', 'last': 'A'}, static=True, lead_base=(0,),
  must_fire=('iter_index', 'conversion_operator', 'drop_prefetch'))
F('Dyn_merge', HPP, 'merge',
  'size_t Dyn_merge(_Bool SkipDeleted, _Bool Move, const Item *A1, size_t first1, size_t last1, const Item *A2, size_t first2, size_t last2, Item *R, size_t result)',
  ret='It<Item>', ret_base='R', static=True, lead_base=(0, 2, 4), targs_as_args=True,
  params={'first1': 'It<Item>', 'last1': 'It<Item>', 'first2': 'It<Item>', 'last2': 'It<Item>', 'result': 'It<Item>'},
  env={'SkipDeleted': 'bool', 'Move': 'bool'}, bases={'first1': 'A1', 'last1': 'A1', 'first2': 'A2', 'last2': 'A2', 'result': 'R'},
  must_fire=('if_constexpr', 'range_copy', 'iter_deref', 'struct_method'))
F('Dyn_end', HPP, 'end', 'DynIt Dyn_end(const Dyn *self)', ret='DynIt')
F('Dyn_find', HPP, 'find', 'DynIt Dyn_find(const Dyn *self, K key)', ret='DynIt', params={'key': 'K'}, must_fire=('struct_method', 'method_call', 'iter_arrow'))
F('Dyn_count', HPP, 'count', 'size_t Dyn_count(const Dyn *self, K key)', ret='size_t', params={'key': 'K'}, must_fire=('operator_call', 'method_call'))
F('Dyn_insert', HPP, 'insert', 'void Dyn_insert(Dyn *self, const Item *new_item)', ret='void', params={'new_item': 'Ref<Item>'})
F('Dyn_pairwise_merge', HPP, 'pairwise_merge', 'void Dyn_pairwise_merge(Dyn *self, const Item *new_item, uint8_t target, size_t size_hint, size_t insertion_point)',
  ret='void', params={'new_item': 'Ref<Item>', 'target': 'uint8_t', 'size_hint': 'size_t', 'insertion_point': 'It<Item>'}, params_complete=True,
  bases={'insertion_point': '(*Dyn_level(self, self->min_level)).data'})
F('Item_ctor', HPP, 'ItemA', 'void Item_ctor(Item *self, K key, V value)', cls='ItemA', self_cls='Item', ordinal=2, ret='void', params={'key': 'K', 'value': 'V'},
  must_fire=('throw', 'ctor_init_list'))
F('Dyn_ctor', HPP, 'DynamicPGMIndex', 'void Dyn_ctor(Dyn *self, uint8_t base, uint8_t buffer_level, uint8_t index_level)', ordinal=0, ret='void',
  params={'base': 'uint8_t', 'buffer_level': 'uint8_t', 'index_level': 'uint8_t'}, must_fire=('throw', 'ctor_init_list'))
FUNCS['PGMType_search'] = FuncDesc('PGMType_search', HPP, 'search', 'ApproxPos PGMType_search(const PGMType *self, K key)', ret='ApproxPos')
FUNCS['PGMType_build'] = FuncDesc('PGMType_build', HPP, 'PGMIndex', 'PGMType PGMType_build(const Item *A, size_t first, size_t last)', ret='PGMType')
FUNCS['pgmv_copy_Item'] = FuncDesc('pgmv_copy_Item', HPP, 'move', 'size_t pgmv_copy_Item(const Item *src, size_t first, size_t last, Item *dst, size_t d)', ret='size_t')
FUNCS['DynIt_make'] = FuncDesc('DynIt_make', HPP, 'Iterator', 'DynIt DynIt_make(const Dyn *p, uint8_t level_number, size_t it)', ret='DynIt')

PRELUDE = r'''
PGMV_DEF_MINMAX(K)
typedef struct { size_t pos; size_t lo; size_t hi; } ApproxPos;
typedef struct { size_t n; size_t stamp; } PGMType;     /* per-level index: only reached through the contract of search; stamp is ghost */
typedef struct { uint8_t level; size_t idx; } DynIt;     /* iterator rendered as (level number, position); the container pointer is implicit */
#define Item_tombstone PGMV_LIMITS_V_max
typedef struct { K first; V second; } PairKV;             /* std::pair<K, V> of range()'s result */
PGMV_DEF_VEC(PairKV)
'''
DYNIT = ('static inline DynIt DynIt_make(const Dyn *p, uint8_t level_number, size_t it) { (void)p; return (DynIt){level_number, it}; }\n'
         'static inline _Bool DynIt_eq(DynIt a, DynIt b) { return a.level == b.level && a.idx == b.idx; }\n'
         'static inline _Bool DynIt_ne(DynIt a, DynIt b) { return !DynIt_eq(a, b); }\n')
LAYOUT = ['struct:Item', 'vec:Item', 'vec:vec_Item', 'vec:PGMType', 'struct:Dyn', 'text:DYNIT']
MACROS = []


def dinst(k, v):
    base = {'uint32_t': ('uint32_t', 'UINT32_MAX', '0'), 'uint64_t': ('uint64_t', 'UINT64_MAX', '0'), 'int64_t': ('uint64_t', 'INT64_MAX', 'INT64_MIN'),
            'int32_t': ('uint32_t', 'INT32_MAX', 'INT32_MIN')}
    return {'name': '%s_%s' % (k, v), 'defs': {'K': k, 'V': v, 'PGMV_LIMITS_K_max': base[k][1], 'PGMV_LIMITS_K_min': base[k][2], 'PGMV_LIMITS_V_max': base[v][1]}}
F('Dyn_range', HPP, 'range', 'vec_PairKV Dyn_range(const Dyn *self, K lo, K hi)', ret='Vec<PairKV>', params={'lo': 'K', 'hi': 'K'},
  must_fire=('throw', 'ternary_lvalue', 'std_upper_bound'))
