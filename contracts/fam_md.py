"""Family `md`: MultidimensionalPGMIndex and its RangeIterator (include/pgm/pgm_index_variants.hpp).

Representation choice (stated in DESIGN 5/C13-C14 and in every evidence file): a point (std::tuple of
coordinates) is identified with its Morton code -- `Pt` is a struct holding the code `z`; encode/Decode are
stubs with the assumed contract of being mutually inverse on the in-range domain (mortonnd, pdep/pext). [A]"""
from unit import Family, ClassDesc, FuncDesc
from emit import FuncInfo

HPP = 'include/pgm/pgm_index_variants.hpp'

FAMILY = Family(
    'md',
    typemap={'T': 'T', 'value_type': 'Pt', 'internal_iterator': 'It<T>', 'multidimensional_pgm_type': 'MD',
             'PGMIndex<T, Epsilon, EpsilonRecursive, Floating>': 'PGMIndexT', 'ApproxPos': 'ApproxPos',
             'multidimensional_pgm_type::value_type': 'Pt', 'decltype(super)': 'Ptr<MD>'},
    classes=[
        ClassDesc('MD', HPP, 'MultidimensionalPGMIndex', consts={'selector': ('MD_SELECTOR', 'uint64_t'), 'Dimensions': ('MD_DIMS', 'uint8_t')},
                  skip=('selector',),
                  methods={'contains': 'MD_contains', 'box_zcontains': 'MD_box_zcontains', 'box_zcontains_field': 'MD_box_zcontains_field',
                           'bigmin': 'MD_bigmin', 'load': 'MD_load', 'encode': 'MD_encode'}),
        ClassDesc('RangeIterator', HPP, 'RangeIterator', ordinal=0, field_types={'super': 'Ptr<MD>', 'it': 'It<T>'},
                  consts={'Dimensions': ('MD_DIMS', 'uint8_t')},
                  methods={'advance': 'RangeIterator_advance', 'box_zcontains': 'MD_box_zcontains', 'bigmin': 'MD_bigmin'}),
    ],
    extra_structs={'ApproxPos': {'pos': 'size_t', 'lo': 'size_t', 'hi': 'size_t'}, 'PGMIndexT': {'n': 'size_t'}, 'Pt': {'z': 'T'}},
    ops={('Pt', '==', 'Pt'): ('bool', 'Pt_eq')},
    struct_methods={('PGMIndexT', 'search'): FuncInfo('PGMIndexT_search', 'ApproxPos')},
    funcs={'morton::Decode': FuncInfo('morton_Decode', 'Pt'), 'multidimensional_pgm_type::encode': FuncInfo('MD_encode', 'T', static=True),
           '_pdep_u64': FuncInfo('pgmv_pdep_u64', 'uint64_t'), 'sdsl::bits::hi': FuncInfo('pgmv_bits_hi', 'uint32_t'),
           'std::make_index_sequence': FuncInfo('PGMV_INDEX_SEQUENCE', 'int')},
    typenames={'T', 'value_type', 'internal_iterator', 'multidimensional_pgm_type', 'Pt'},
    templates={'std::make_index_sequence'},
)

FUNCS = {}
CONSTS = {'Dimensions': ('MD_DIMS', 'uint8_t'), 'selector': ('MD_SELECTOR', 'uint64_t'), 'miss_threshold': ('MD_miss_threshold', 'int'),
          'sdsl::bits::lo_set': ('pgmv_lo_set', 'Arr<uint64_t>')}


def F(*a, **kw):
    c = dict(CONSTS)
    c.update(kw.get('consts', {}))
    kw['consts'] = c
    fd = FuncDesc(*a, **kw)
    FUNCS[fd.key] = fd
    return fd


F('MD_contains', HPP, 'contains', '_Bool MD_contains(MD *self, Pt p)', cls='MultidimensionalPGMIndex', self_cls='MD', ret='bool', params={'p': 'Pt'},
  must_fire=('std_lower_bound', 'struct_method', 'iter_local'))
F('MD_encode', HPP, 'encode', 'T MD_encode(Pt t)', cls='MultidimensionalPGMIndex', self_cls='MD', ret='T', static=True)
F('MD_box_zcontains', HPP, 'box_zcontains', '_Bool MD_box_zcontains(T min, T max, T p)', cls='MultidimensionalPGMIndex', self_cls='MD', ret='bool', static=True,
  params={'min': 'T', 'max': 'T', 'p': 'T'})
F('MD_box_zcontains_field', HPP, 'box_zcontains_field', '_Bool MD_box_zcontains_field(T min, T max, T p, int pgmv_seq)', cls='MultidimensionalPGMIndex', self_cls='MD',
  ret='bool', static=True, params={'min': 'T', 'max': 'T', 'p': 'T'}, must_fire=('fold_expression',))
F('MD_load', HPP, 'load', 'T MD_load(T target, T pattern, uint8_t bit_position, uint8_t dimension)', cls='MultidimensionalPGMIndex', self_cls='MD', ret='T', static=True,
  params={'target': 'T', 'pattern': 'T', 'bit_position': 'uint8_t', 'dimension': 'uint8_t'})
F('MD_bigmin', HPP, 'bigmin', 'T MD_bigmin(T xd, T min, T max)', cls='MultidimensionalPGMIndex', self_cls='MD', ret='T', static=True,
  params={'xd': 'T', 'min': 'T', 'max': 'T'})
F('RangeIterator_advance', HPP, 'advance', 'void RangeIterator_advance(RangeIterator *self)', cls='RangeIterator', cls_ordinal=0, ret='void',
  bases={'it': 'self->super->data.data'}, must_fire=('struct_method', 'method_call', 'iter_deref'))
F('RangeIterator_ctor', HPP, 'RangeIterator', 'void RangeIterator_ctor(RangeIterator *self, const MD *super, Pt min, Pt max)', cls='RangeIterator', cls_ordinal=0,
  ordinal=2, ret='void', params={'super': 'Ptr<MD>', 'min': 'Pt', 'max': 'Pt'}, bases={'it': 'super->data.data'},
  base_alias=[('super->data.data', 'self->super->data.data'), ('self->super->data.data', 'super->data.data')])
# stubs (never extracted): search of the inner index, encode/Decode, library models
FUNCS['PGMIndexT_search'] = FuncDesc('PGMIndexT_search', HPP, 'search', 'ApproxPos PGMIndexT_search(const PGMIndexT *self, T key)', ret='ApproxPos')
FUNCS['morton_Decode'] = FuncDesc('morton_Decode', HPP, 'Decode', 'Pt morton_Decode(T z)', ret='Pt')

PRELUDE = r'''
PGMV_DEF_MINMAX(T)
typedef struct { T z; } Pt;   /* a point, identified with its Morton code (see family docstring) */
static inline _Bool Pt_eq(Pt a, Pt b) { return a.z == b.z; }
typedef struct { size_t pos; size_t lo; size_t hi; } ApproxPos;
typedef struct { size_t n; } PGMIndexT;   /* the inner PGMIndex: only reached through the contract of search */
#define PGMV_INDEX_SEQUENCE(x) 0
static inline uint32_t pgmv_bits_hi(uint64_t x) { return x == 0 ? 0 : 63 - __builtin_clzll(x); }   /* sdsl::bits::hi [A: same definition] */
static const uint64_t pgmv_lo_set[65] = {0ULL,
  0x1ULL,0x3ULL,0x7ULL,0xFULL,0x1FULL,0x3FULL,0x7FULL,0xFFULL,0x1FFULL,0x3FFULL,0x7FFULL,0xFFFULL,0x1FFFULL,0x3FFFULL,0x7FFFULL,0xFFFFULL,
  0x1FFFFULL,0x3FFFFULL,0x7FFFFULL,0xFFFFFULL,0x1FFFFFULL,0x3FFFFFULL,0x7FFFFFULL,0xFFFFFFULL,0x1FFFFFFULL,0x3FFFFFFULL,0x7FFFFFFULL,0xFFFFFFFULL,
  0x1FFFFFFFULL,0x3FFFFFFFULL,0x7FFFFFFFULL,0xFFFFFFFFULL,0x1FFFFFFFFULL,0x3FFFFFFFFULL,0x7FFFFFFFFULL,0xFFFFFFFFFULL,0x1FFFFFFFFFULL,0x3FFFFFFFFFULL,
  0x7FFFFFFFFFULL,0xFFFFFFFFFFULL,0x1FFFFFFFFFFULL,0x3FFFFFFFFFFULL,0x7FFFFFFFFFFULL,0xFFFFFFFFFFFULL,0x1FFFFFFFFFFFULL,0x3FFFFFFFFFFFULL,0x7FFFFFFFFFFFULL,
  0xFFFFFFFFFFFFULL,0x1FFFFFFFFFFFFULL,0x3FFFFFFFFFFFFULL,0x7FFFFFFFFFFFFULL,0xFFFFFFFFFFFFFULL,0x1FFFFFFFFFFFFFULL,0x3FFFFFFFFFFFFFULL,0x7FFFFFFFFFFFFFULL,
  0xFFFFFFFFFFFFFFULL,0x1FFFFFFFFFFFFFFULL,0x3FFFFFFFFFFFFFFULL,0x7FFFFFFFFFFFFFFULL,0xFFFFFFFFFFFFFFFULL,0x1FFFFFFFFFFFFFFFULL,0x3FFFFFFFFFFFFFFFULL,
  0x7FFFFFFFFFFFFFFFULL,0xFFFFFFFFFFFFFFFFULL};   /* sdsl::bits::lo_set [A: same table] */
#define PGMV_INDEX_SEQUENCE0 0
'''
LAYOUT = ['vec:T', 'struct:MD', 'struct:RangeIterator']
MACROS = []


def md_inst(t, d):
    bits = 64 if t == 'uint64_t' else 32
    fb = bits // d
    sel = 0
    for i in range(fb):
        sel |= 1 << (i * d)
    return {'name': '%s_%dd' % (t, d), 'pack': {'I': list(range(d))},
            'defs': {'T': t, 'MD_DIMS': str(d), 'MD_FIELD_BITS': str(fb), 'MD_SELECTOR': '0x%xull' % sel, 'MD_TBITS': str(bits),
                     'PGMV_LIMITS_T_max': 'UINT%d_MAX' % bits}}
