"""cx2c.cxparse -- tokenizer and recursive-descent parser for the C++ subset used by the function
bodies under contract.  Produces a small tuple-based AST.  Anything outside the grammar raises
ExtractionBreak (=> UNDECIDED, never a violation)."""
import re
from scan import ExtractionBreak

TOKEN = re.compile(r'''\s*(?:
   (?P<num>(?:0[xX][0-9a-fA-F.]+[pP][-+]?\d+|0[xX][0-9a-fA-F']+|0[bB][01']+|\d[\d']*\.\d*(?:[eE][-+]?\d+)?|\.\d+(?:[eE][-+]?\d+)?|\d[\d']*(?:[eE][-+]?\d+)?)(?:[uUlLfF]*))
  |(?P<id>[A-Za-z_]\w*)
  |(?P<str>"(?:\\.|[^"\\])*")
  |(?P<chr>'(?:\\.|[^'\\])')
  |(?P<op>->\*|->|::|\+\+|--|<<=|>>=|<=|>=|==|!=|&&|\|\||<<|>>|\+=|-=|\*=|/=|%=|&=|\|=|\^=|\.\.\.|[-+*/%<>=!&|^~?:;,.(){}\[\]\#])
)''', re.X)


def tokenize(s):
    pos = 0
    out = []
    n = len(s)
    while True:
        m = TOKEN.match(s, pos)
        if not m or m.end() == pos:
            if s[pos:].strip() == '':
                break
            raise ExtractionBreak('cannot tokenize at ' + repr(s[pos:pos + 40]))
        k = m.lastgroup
        out.append((k, m.group(k), m.start(k)))
        pos = m.end()
    return out


BINPREC = {'||': 1, '&&': 2, '|': 3, '^': 4, '&': 5, '==': 6, '!=': 6, '<': 7, '>': 7, '<=': 7, '>=': 7,
           '<<': 8, '>>': 8, '+': 9, '-': 9, '*': 10, '/': 10, '%': 10}
ASSIGN = {'=', '+=', '-=', '*=', '/=', '%=', '&=', '|=', '^=', '<<=', '>>='}
BUILTIN_TYPES = {'size_t', 'int', 'double', 'float', 'bool', 'long', 'unsigned', 'char', 'short', 'signed', 'void',
                 'uint8_t', 'uint16_t', 'uint32_t', 'uint64_t', 'int8_t', 'int16_t', 'int32_t', 'int64_t',
                 '__int128', 'auto', 'ssize_t', 'ptrdiff_t'}
DECL_QUALS = {'const', 'static', 'constexpr', 'volatile', 'inline', 'typename', 'mutable', 'struct'}


class Parser:
    def __init__(self, toks, typenames=(), templates=()):
        self.t = toks
        self.i = 0
        self.typenames = set(typenames) | BUILTIN_TYPES
        self.templates = set(templates)
        self.comma_ok = False

    # ---------- token helpers
    def peek(self, k=0):
        j = self.i + k
        return self.t[j][:2] if j < len(self.t) else ('eof', '')

    def nxt(self):
        x = self.peek()
        self.i += 1
        return x

    def accept(self, v):
        if self.peek()[1] == v:
            self.i += 1
            return True
        return False

    def expect(self, v):
        if not self.accept(v):
            ctx = ' '.join(x[1] for x in self.t[max(0, self.i - 6):self.i + 4])
            raise ExtractionBreak('parse: expected %r, got %r near `%s`' % (v, self.peek()[1], ctx))

    # ---------- template-id lookahead
    def _template_close(self, j):
        """toks[j] is '<'; return index just past the matching '>' if this looks like a template
        argument list, else None."""
        depth = 0
        par = 0
        k = j
        while k < len(self.t):
            v = self.t[k][1]
            if v in ('(', '[', '{'):
                par += 1
            elif v in (')', ']', '}'):
                par -= 1
                if par < 0:
                    return None
            elif par == 0:
                if v == '<':
                    depth += 1
                elif v == '>':
                    depth -= 1
                    if depth == 0:
                        return k + 1
                elif v == '>>':
                    depth -= 2
                    if depth <= 0:
                        return k + 1 if depth == 0 else None
                elif v in (';', '&&', '||'):
                    return None
            k += 1
        return None

    def _is_template_name(self, name):
        base = name.split('::')[-1]
        return (name.startswith('std::') or name.startswith('sdsl::') or name.startswith('internal::')
                or name in self.templates or base in self.templates
                or name in ('static_cast', 'reinterpret_cast', 'const_cast', 'decltype'))

    def qualified_name(self, first):
        """first identifier already consumed; absorb ::name and <targs> parts. Returns (name, targs_list)"""
        name = first
        targs = None
        while True:
            if self.peek()[1] == '::':
                self.nxt()
                if self.peek()[1] == 'template':
                    self.nxt()
                k, v = self.nxt()
                name += '::' + v
                continue
            if self.peek()[1] == '<' and self._is_template_name(name):
                close = self._template_close(self.i)
                if close is not None:
                    if True:
                        txt = self.t[self.i + 1:close - 1]
                        targs_txt = tok_join(txt) + ('>' if self.t[close - 1][1] == '>>' else '')
                        self.i = close
                        if self.peek()[1] == '::':
                            name += '<' + targs_txt + '>'
                            continue
                        targs = targs_txt
                        return name, targs
            return name, targs

    # ---------- types (for declarations and casts)
    def try_type(self):
        """Try to parse a type at the current position; returns type text or None (position restored)."""
        save = self.i
        quals = []
        while self.peek()[1] in DECL_QUALS:
            quals.append(self.nxt()[1])
        k, v = self.peek()
        if k != 'id':
            self.i = save
            return None
        if v == 'decltype':
            self.nxt()
            self.expect('(')
            d = 1
            txt = []
            while d:
                t = self.nxt()[1]
                d += (t == '(') - (t == ')')
                if d:
                    txt.append(t)
            ty = 'decltype(' + ' '.join(txt) + ')'
        else:
            self.nxt()
            words = [v]
            while v in ('unsigned', 'signed', 'long', 'short') and self.peek()[1] in ('long', 'int', 'char', 'short', 'unsigned'):
                v = self.nxt()[1]
                words.append(v)
            if len(words) > 1:
                ty = ' '.join(words)
            else:
                name, targs = self.qualified_name(v)
                ty = name + ('<' + targs + '>' if targs is not None else '')
                base = name.split('::')[-1]
                if not (name in self.typenames or base in self.typenames or name.startswith('std::') or name.startswith('sdsl::')
                        or 'typename' in quals or 'struct' in quals or targs is not None):
                    # `A b ;` / `A b =` / `A b (` : two consecutive identifiers can only be a declaration
                    if not (self.peek()[0] == 'id' and self.peek(1)[1] in (';', '=') and self.peek()[1] not in DECL_QUALS):
                        self.i = save
                        return None
        q = ' '.join(x for x in quals if x in ('const',))
        while self.peek()[1] == 'const':
            self.nxt()
            q = 'const'
        return (q + ' ' + ty).strip()

    # ---------- expressions
    def expr(self):
        e = self.assign()
        while self.peek()[1] == ',' and self.comma_ok:
            self.nxt()
            e = ('comma', e, self.assign())
        return e

    def expr_with_comma(self):
        old = self.comma_ok
        self.comma_ok = True
        e = self.expr()
        self.comma_ok = old
        return e

    def assign(self):
        if self.peek()[1] == 'throw':
            self.nxt()
            return ('throwexpr', self.assign())
        l = self.ternary()
        if self.peek()[1] in ASSIGN:
            op = self.nxt()[1]
            return ('assign', op, l, self.assign())
        return l

    def ternary(self):
        c = self.binary(1)
        if self.accept('?'):
            old = self.comma_ok
            self.comma_ok = False
            a = self.assign()
            self.expect(':')
            b = self.assign()
            self.comma_ok = old
            return ('ternary', c, a, b)
        return c

    def binary(self, minp):
        l = self.unary()
        while True:
            k, op = self.peek()
            if k != 'op' or op not in BINPREC or BINPREC[op] < minp:
                return l
            self.nxt()
            if self.peek()[1] == '...':
                self.nxt()
                return ('fold', op, l)
            r = self.binary(BINPREC[op] + 1)
            l = ('bin', op, l, r)

    def unary(self):
        k, v = self.peek()
        if v in ('!', '-', '+', '~', '*', '&', '++', '--'):
            self.nxt()
            return ('un', v, self.unary())
        if v == 'sizeof':
            self.nxt()
            self.expect('(')
            d = 1
            txt = []
            while d:
                t = self.nxt()[1]
                d += (t == '(') - (t == ')')
                if d:
                    txt.append(t)
            return self.postfix(('sizeof', tok_join([(None, x) for x in txt])))
        if v == '(':
            # C-style cast?  ( type [*&] ) unary
            save = self.i
            self.nxt()
            ty = self.try_type()
            if ty is not None:
                stars = ''
                while self.peek()[1] in ('*', '&'):
                    stars += self.nxt()[1]
                if self.accept(')'):
                    nk, nv = self.peek()
                    if nk in ('id', 'num') or nv in ('(', '*', '&', '-', '~', '!'):
                        return ('cast', ty + (' ' + stars if stars else ''), self.unary())
            self.i = save
        return self.postfix(self.primary())

    def primary(self):
        k, v = self.nxt()
        if k in ('num',):
            return ('lit', v.replace("'", ''))
        if k in ('str', 'chr'):
            return ('lit', v)
        if v == '(':
            e = self.expr_with_comma()
            self.expect(')')
            return ('paren', e)
        if v == '{':
            return ('init', None, self.init_items())
        if v == '[':
            return self.lambda_()
        if k == 'id':
            if v in ('static_cast', 'reinterpret_cast', 'const_cast'):
                self.expect('<')
                # parse type tokens up to matching '>'
                close = self._template_close(self.i - 1)
                ty = tok_join(self.t[self.i:close - 1])
                self.i = close
                self.expect('(')
                e = self.expr_with_comma()
                self.expect(')')
                return ('cast', ty, e)
            if v == 'this':
                return ('this',)
            if v in ('true', 'false'):
                return ('lit', '1' if v == 'true' else '0')
            if v == 'nullptr':
                return ('lit', 'NULL')
            if v == 'typename':
                k, v = self.nxt()
            if v in ('unsigned', 'signed', 'long', 'short') and self.peek()[0] == 'id' and self.peek()[1] in ('long', 'int', 'char', 'short'):
                words = [v]
                while self.peek()[1] in ('long', 'int', 'char', 'short'):
                    words.append(self.nxt()[1])
                return ('id', ' '.join(words), None)
            name, targs = self.qualified_name(v)
            if self.peek()[1] == '{' and (name in self.typenames or name.split('::')[-1] in self.typenames or targs is not None):
                self.nxt()
                return ('init', name + ('<' + targs + '>' if targs else ''), self.init_items())
            return ('id', name, targs)
        raise ExtractionBreak('parse: unexpected token %r' % (v,))

    def init_items(self):
        items = []
        old = self.comma_ok
        self.comma_ok = False
        if not self.accept('}'):
            items.append(self.assign())
            while self.accept(','):
                if self.peek()[1] == '}':
                    break
                items.append(self.assign())
            self.expect('}')
        self.comma_ok = old
        return items

    def lambda_(self):
        # '[' consumed
        caps = []
        while not self.accept(']'):
            caps.append(self.nxt()[1])
        if self.peek()[1] == '<':     # template lambda
            close = self._template_close(self.i)
            self.i = close
        params = []
        if self.accept('('):
            if not self.accept(')'):
                while True:
                    ptoks = []
                    d = 0
                    while True:
                        k, v = self.peek()
                        if d == 0 and v in (',', ')'):
                            break
                        d += (v in '(<[') - (v in ')>]')
                        ptoks.append(self.nxt())
                    params.append(ptoks)
                    if self.accept(')'):
                        break
                    self.expect(',')
        while self.peek()[1] in ('mutable', 'noexcept'):
            self.nxt()
        if self.accept('->'):
            while self.peek()[1] != '{':
                self.nxt()
        body = self.stmt()
        plist = []
        for p in params:
            nm = p[-1][1]
            ty = tok_join(p[:-1])
            plist.append((ty, nm))
        return ('lambda', caps, plist, body)

    def args(self):
        a = []
        if self.accept(')'):
            return a
        old = self.comma_ok
        self.comma_ok = False
        a.append(self.assign())
        while self.accept(','):
            a.append(self.assign())
        self.comma_ok = old
        self.expect(')')
        return a

    def postfix(self, e):
        while True:
            v = self.peek()[1]
            if v == '(':
                self.nxt()
                e = ('call', e, self.args())
            elif v == '[':
                self.nxt()
                i = self.expr_with_comma()
                self.expect(']')
                e = ('index', e, i)
            elif v in ('.', '->'):
                self.nxt()
                if self.peek()[1] == 'template':
                    self.nxt()
                k, nm = self.nxt()
                if nm == 'operator':
                    raise ExtractionBreak('explicit operator call')
                targs = None
                if self.peek()[1] == '<' and nm in self.templates:
                    close = self._template_close(self.i)
                    if close is not None and self.t[close][1] == '(':
                        targs = tok_join(self.t[self.i + 1:close - 1])
                        self.i = close
                e = ('member', e, nm, v == '->', targs)
            elif v in ('++', '--'):
                self.nxt()
                e = ('post', v, e)
            else:
                return e

    # ---------- statements
    def stmt(self):
        k, v = self.peek()
        if v == '{':
            self.nxt()
            b = []
            while not self.accept('}'):
                b.append(self.stmt())
            return ('block', b)
        if v == ';':
            self.nxt()
            return ('empty',)
        if v == 'if':
            self.nxt()
            cx = self.accept('constexpr')
            self.expect('(')
            c = self.expr_with_comma()
            self.expect(')')
            t = self.stmt()
            e = None
            if self.accept('else'):
                e = self.stmt()
            return ('if', c, t, e, cx)
        if v == 'while':
            self.nxt()
            self.expect('(')
            c = self.expr_with_comma()
            self.expect(')')
            return ('while', c, self.stmt())
        if v == 'do':
            self.nxt()
            b = self.stmt()
            self.expect('while')
            self.expect('(')
            c = self.expr_with_comma()
            self.expect(')')
            self.expect(';')
            return ('do', b, c)
        if v == 'for':
            self.nxt()
            self.expect('(')
            # range-for?
            save = self.i
            ty = self.try_type()
            if ty is not None:
                ref = ''
                while self.peek()[1] in ('&', '*', '&&'):
                    ref += self.nxt()[1]
                if self.peek()[0] == 'id' and self.peek(1)[1] == ':':
                    name = self.nxt()[1]
                    self.nxt()
                    rng = self.expr_with_comma()
                    self.expect(')')
                    return ('rangefor', ty, ref, name, rng, self.stmt())
            self.i = save
            init = None
            if not self.accept(';'):
                init = self.simple_stmt()
            c = None
            if not self.accept(';'):
                c = self.expr_with_comma()
                self.expect(';')
            inc = None
            if not self.accept(')'):
                inc = self.expr_with_comma()
                self.expect(')')
            return ('for', init, c, inc, self.stmt())
        if v == 'switch':
            self.nxt()
            self.expect('(')
            c = self.expr_with_comma()
            self.expect(')')
            self.expect('{')
            items = []
            while not self.accept('}'):
                if self.accept('case'):
                    e = self.ternary()
                    self.expect(':')
                    items.append(('case', e))
                elif self.accept('default'):
                    self.expect(':')
                    items.append(('default',))
                else:
                    items.append(self.stmt())
            return ('switch', c, items)
        if v == 'return':
            self.nxt()
            if self.accept(';'):
                return ('return', None)
            e = self.expr_with_comma()
            self.expect(';')
            return ('return', e)
        if v in ('break', 'continue'):
            self.nxt()
            self.expect(';')
            return (v,)
        if v == 'throw':
            self.nxt()
            e = self.expr_with_comma()
            self.expect(';')
            return ('throw', e)
        if v == 'using':
            self.nxt()
            name = self.nxt()[1]
            self.expect('=')
            toks = []
            while self.peek()[1] != ';':
                toks.append(self.nxt())
            self.expect(';')
            self.typenames.add(name)
            return ('using', name, tok_join(toks))
        if v == '#':
            # preprocessor/pragma line: consume to a marker we inserted (pragma lines are rewritten by the caller)
            raise ExtractionBreak('preprocessor directive inside body')
        if v == 'PGMV_PRAGMA_OMP':
            self.nxt()
            self.expect('(')
            d = 1
            txt = []
            while d:
                t = self.nxt()[1]
                d += (t == '(') - (t == ')')
                if d:
                    txt.append(t)
            return ('pragma', ' '.join(txt))
        return self.simple_stmt()

    def simple_stmt(self):
        save = self.i
        ty = self.try_type()
        if ty is not None:
            # structured binding: auto [a, b] = e ;   (also `auto[a,b]`)
            refq = ''
            while self.peek()[1] in ('&', '*', '&&'):
                refq += self.nxt()[1]
            if self.peek()[1] == '[' and ty.split()[-1] == 'auto':
                self.nxt()
                names = [self.nxt()[1]]
                while self.accept(','):
                    names.append(self.nxt()[1])
                self.expect(']')
                self.expect('=')
                e = self.assign()
                self.expect(';')
                return ('sbind', names, e, refq)
            if self.peek()[0] == 'id' and self.peek(1)[1] in ('=', ';', '{', '(', '[', ','):
                decls = []
                while True:
                    name = self.nxt()[1]
                    arr = None
                    init = None
                    kind = None
                    if self.accept('['):
                        arr = self.expr_with_comma() if self.peek()[1] != ']' else None
                        self.expect(']')
                    if self.accept('='):
                        init = self.assign()
                        kind = '='
                    elif self.peek()[1] == '{':
                        self.nxt()
                        init = ('init', None, self.init_items())
                        kind = '{'
                    elif self.peek()[1] == '(':
                        self.nxt()
                        init = ('ctorargs', self.args())
                        kind = '('
                    decls.append((refq, name, arr, init, kind))
                    if self.accept(','):
                        refq = ''
                        while self.peek()[1] in ('&', '*'):
                            refq += self.nxt()[1]
                        continue
                    break
                self.expect(';')
                return ('decl', ty, decls)
            self.i = save
        e = self.expr_with_comma()
        self.expect(';')
        return ('expr', e)


def tok_join(toks):
    out = ''
    prev = ''
    for t in toks:
        v = t[1]
        if out and (prev[-1:].isalnum() or prev[-1:] == '_') and (v[:1].isalnum() or v[:1] == '_'):
            out += ' '
        out += v
        prev = v
    return out


def parse_body(text, typenames=(), templates=()):
    text = re.sub(r'^[ \t]*#[ \t]*pragma[ \t]+omp([^\n]*)$', r'PGMV_PRAGMA_OMP(\1)', text, flags=re.M)
    toks = tokenize('{' + text + '}')
    p = Parser(toks, typenames, templates)
    ast = p.stmt()
    if p.i != len(toks):
        raise ExtractionBreak('parse: trailing tokens')
    return ast
