// Bounded native link for C20: every documented rejection, on the REAL classes, at every position of small inputs.
#include <map>
#include "common.hpp"
#include "pgm/pgm_index.hpp"
#include "pgm/pgm_index_variants.hpp"
#include "pgm/pgm_index_dynamic.hpp"
static vl::Report R;
template<typename E, typename F> static bool throws(F f) { try { f(); } catch (const E &) { return true; } catch (...) { return false; } return false; }
static void fail(const std::string &what) { if (R.seen.insert(what).second) R.violation("C20 " + what, "{}"); }

template<typename K> static void sentinel_checks(const std::string &name) {
    K s = vl::reserved<K>();
    for (size_t n : {size_t(1), size_t(2), size_t(5), size_t(40)})
        for (size_t dup = 1; dup <= std::min<size_t>(n, 3); ++dup) {
            std::vector<K> d;
            for (size_t i = 0; i + dup < n; ++i) d.push_back(K(i * 3));
            for (size_t i = 0; i < dup; ++i) d.push_back(s);
            ++R.cases;
            if (!throws<std::invalid_argument>([&] { pgm::PGMIndex<K, 4, 2> x(d.begin(), d.end()); })) fail("PGMIndex<" + name + "> accepted data containing the reserved key value");
            if constexpr (std::is_unsigned_v<K>) {
                if (!throws<std::invalid_argument>([&] { pgm::CompressedPGMIndex<K, 4, 2> x(d.begin(), d.end()); })) fail("CompressedPGMIndex<" + name + "> accepted data containing the reserved key value");
                if (!throws<std::invalid_argument>([&] { pgm::BucketingPGMIndex<K, 4, 16, 0> x(d.begin(), d.end()); })) fail("BucketingPGMIndex<" + name + "> accepted data containing the reserved key value");
                if (!throws<std::invalid_argument>([&] { pgm::EliasFanoPGMIndex<K, 4> x(d.begin(), d.end()); })) fail("EliasFanoPGMIndex<" + name + "> accepted data containing the reserved key value");
            }
        }
}

int main() {
    sentinel_checks<uint64_t>("uint64_t"); sentinel_checks<int64_t>("int64_t"); sentinel_checks<uint32_t>("uint32_t"); sentinel_checks<int16_t>("int16_t");
    sentinel_checks<uint8_t>("uint8_t"); sentinel_checks<double>("double"); sentinel_checks<float>("float");
    using Dyn = pgm::DynamicPGMIndex<uint32_t, uint32_t>;
    // base
    for (int b = 3; b < 256; ++b) { ++R.cases; bool pow2 = (b & (b - 1)) == 0; bool t = throws<std::invalid_argument>([&] { Dyn d((uint8_t) b, (uint8_t) 1, (uint8_t) 0); }); if (t == pow2) fail("DynamicPGMIndex base " + std::to_string(b) + (pow2 ? " rejected" : " accepted")); }
    // unsorted bulk load at every position
    for (size_t n : {size_t(2), size_t(3), size_t(10), size_t(200)})
        for (size_t pos = 1; pos < n; pos += std::max<size_t>(1, n / 20)) {
            std::vector<std::pair<uint32_t, uint32_t>> v;
            for (size_t i = 0; i < n; ++i) v.push_back({uint32_t(10 * i + 10), 1});
            v[pos].first = v[pos - 1].first - 1;
            ++R.cases;
            if (!throws<std::invalid_argument>([&] { Dyn d(v.begin(), v.end()); })) fail("DynamicPGMIndex accepted an unsorted bulk-load range (pair at position " + std::to_string(pos) + " of " + std::to_string(n) + ")");
        }
    // reserved tombstone value at every position of an otherwise valid (sorted, distinct keys) bulk-load range
    for (size_t n : {size_t(1), size_t(2), size_t(3), size_t(10), size_t(200), size_t(1000)})
        for (size_t pos = 0; pos < n; pos += std::max<size_t>(1, n / 25)) {
            std::vector<std::pair<uint32_t, uint32_t>> v;
            for (size_t i = 0; i < n; ++i) v.push_back({uint32_t(10 * i + 10), uint32_t(i)});
            v[pos].second = std::numeric_limits<uint32_t>::max();
            ++R.cases;
            if (!throws<std::invalid_argument>([&] { Dyn d(v.begin(), v.end()); })) fail("DynamicPGMIndex bulk load accepted the reserved tombstone value (pair at position " + std::to_string(pos) + " of " + std::to_string(n) + ")");
            if (pos + 1 < n && pos + 1 != n - 1) { v[pos].second = 7; v[n - 1].second = std::numeric_limits<uint32_t>::max(); ++R.cases;
                if (!throws<std::invalid_argument>([&] { Dyn d(v.begin(), v.end()); })) fail("DynamicPGMIndex bulk load accepted the reserved tombstone value (last pair of " + std::to_string(n) + ")"); }
        }
    // tombstone value at every point of a history; rejected insert leaves the container unchanged
    {
        Dyn d((uint8_t) 4, (uint8_t) 1, (uint8_t) 2);
        std::map<uint32_t, uint32_t> ref;
        std::mt19937 rng(vl::seed_from_env());
        for (int i = 0; i < 600; ++i) {
            uint32_t k = rng() % 100;
            ++R.cases;
            if (i % 5 == 0) {
                size_t before = d.size();
                if (!throws<std::invalid_argument>([&] { d.insert_or_assign(k, std::numeric_limits<uint32_t>::max()); })) fail("insert_or_assign accepted the reserved tombstone value");
                auto it = d.find(k);
                if (d.size() != before || (it == d.end()) != (ref.find(k) == ref.end()) || (it != d.end() && it->second != ref[k])) fail("a rejected insert changed the container");
            } else if (i % 3 == 0) { d.erase(k); ref.erase(k); }
            else { d.insert_or_assign(k, i); ref[k] = i; }
        }
        ++R.cases;
        if (!throws<std::invalid_argument>([&] { d.range(50, 49); })) fail("range(lo, hi) with lo > hi was not rejected");
        if (throws<std::invalid_argument>([&] { d.range(49, 49); })) fail("range(lo, lo) was rejected");
    }
    // coordinates too wide for the encoder (uint32, 2-D: FieldBits 16; a coordinate needs BIT_WIDTH < 16)
    for (uint32_t bad : {1u << 15, 1u << 16, 0xFFFFFFFFu})
        for (int which = 0; which < 2; ++which) {
            std::vector<std::tuple<uint32_t, uint32_t>> pts{{1, 2}, {3, 4}};
            pts.push_back(which ? std::tuple<uint32_t, uint32_t>{5, bad} : std::tuple<uint32_t, uint32_t>{bad, 5});
            ++R.cases;
            if (!throws<std::runtime_error>([&] { pgm::MultidimensionalPGMIndex<2, uint32_t, 16> x(pts.begin(), pts.end()); })) fail("MultidimensionalPGMIndex accepted a coordinate too wide for the encoder");
        }
    // segmentation builder: negative epsilon, non-increasing x at every position inside a segment
    ++R.cases;
    if (!throws<std::invalid_argument>([&] { pgm::internal::OptimalPiecewiseLinearModel<int32_t, int32_t> o(-1); })) fail("OptimalPiecewiseLinearModel accepted a negative epsilon");
    for (size_t len = 2; len <= 6; ++len)
        for (size_t pos = 1; pos < len; ++pos)
            for (int eq = 0; eq < 2; ++eq) {
                pgm::internal::OptimalPiecewiseLinearModel<uint64_t, size_t> o(100);
                bool thrown = false, closed = false;
                for (size_t i = 0; i < len && !thrown; ++i) {
                    uint64_t x = 10 * (i + 1);
                    if (i == pos) x = 10 * i - (eq ? 0 : 3);
                    try { if (!o.add_point(x, i)) { closed = true; break; } } catch (const std::logic_error &) { thrown = true; }
                }
                ++R.cases;
                if (!thrown && !closed) fail("add_point accepted a key that does not exceed its predecessor (point " + std::to_string(pos + 1) + " of a segment)");
            }
    R.distinct = R.cases;
    return R.finish(false);
}
