/* pgmv.h -- C prelude shared by every extracted unit.
 *
 * Everything here is either (a) a direct C rendering of a C++ library facility with the same
 * semantics (min/max/clamp, numeric_limits, type traits), or (b) a model with an *assumed* contract
 * (vector growth, std algorithms); (b) items are listed as assumptions in every evidence file. */
#ifndef PGMV_H
#define PGMV_H
#include <stdint.h>
#include <stddef.h>
#include <stdbool.h>
#include <limits.h>
#include <float.h>
#include <stdlib.h>

#ifndef PGMV_CBMC
/* native build of the extracted text (fidelity check): contracts vanish */
#define __CPROVER_assert(c, msg) ((void)0)
#define __CPROVER_assume(c) ((void)0)
#endif

/* ---- proof cut: an assertion that, once checked, is assumed for the rest of the path (sound: the
 * assumption only discards states in which the assertion just checked has already failed) */
#ifdef PGMV_CANARY
#define PGMV_CANARY_POINT(n) __CPROVER_assert(0, "pgmv canary: return " #n " reachable")
#else
#define PGMV_CANARY_POINT(n) ((void)0)
#endif
#define PGMV_CUT(c, msg) do { __CPROVER_assert(c, msg); __CPROVER_assume(c); } while (0)

/* ---- exceptions: a throw becomes "set flag, return unspecified value" in the throwing function */
enum { PGMV_EXC_none = 0, PGMV_EXC_invalid_argument = 1, PGMV_EXC_logic_error = 2, PGMV_EXC_overflow_error = 3,
       PGMV_EXC_runtime_error = 4, PGMV_EXC_exception = 5 };
extern int pgmv_thrown;

/* ---- std::min / std::max / std::clamp (exact library semantics: min returns b only if b < a) */
#define PGMV_DEF_MINMAX(T) \
  static inline T pgmv_min_##T(T a, T b) { return b < a ? b : a; } \
  static inline T pgmv_max_##T(T a, T b) { return a < b ? b : a; } \
  static inline T pgmv_clamp_##T(T v, T lo, T hi) { return v < lo ? lo : (hi < v ? hi : v); }
PGMV_DEF_MINMAX(size_t)
PGMV_DEF_MINMAX(int)
PGMV_DEF_MINMAX(int64_t)
PGMV_DEF_MINMAX(uint8_t)
PGMV_DEF_MINMAX(uint32_t)

/* ---- type traits (compile-time constants, as in C++) */
#define PGMV_IS_SAME_V(A, B) __builtin_types_compatible_p(A, B)
#define PGMV_IS_FLOATING_POINT_V(A) (__builtin_types_compatible_p(A, float) || __builtin_types_compatible_p(A, double) || __builtin_types_compatible_p(A, long double))
#define PGMV_IS_INTEGRAL_V(A) (!PGMV_IS_FLOATING_POINT_V(A))

/* ---- std::numeric_limits */
#define PGMV_LIMITS_size_t_max SIZE_MAX
#define PGMV_LIMITS_size_t_lowest ((size_t)0)
#define PGMV_LIMITS_size_t_min ((size_t)0)
#define PGMV_LIMITS_uint8_t_max ((uint8_t)255)
#define PGMV_LIMITS_uint32_t_max UINT32_MAX
#define PGMV_LIMITS_uint64_t_max UINT64_MAX
#define PGMV_LIMITS_int64_t_max INT64_MAX

/* ---- floating -> integer conversion.  C++ leaves an out-of-range conversion undefined; on x86-64 it
 * yields some value.  The extractor renders every float->integer cast through these helpers: in range
 * the exact truncation, out of range an unspecified value (nondeterministic under CBMC).  [A] */
#ifdef PGMV_CBMC
size_t pgmv_nondet_size_t(void);
int64_t pgmv_nondet_int64_t(void);
#ifdef PGMV_F2I_STRICT
/* units that prove the absence of undefined conversions: out of range is a failed obligation */
static inline size_t pgmv_f2i_size_t(double x) { __CPROVER_assert(x > -1.0 && x < 18446744073709551616.0, "float -> size_t conversion is in range (no undefined behaviour)"); return (size_t)x; }
#else
static inline size_t pgmv_f2i_size_t(double x) { if (x > -1.0 && x < 18446744073709551616.0) return (size_t)x; return pgmv_nondet_size_t(); }
#endif
#ifdef PGMV_F2I_STRICT
static inline int64_t pgmv_f2i_int64_t(double x) { __CPROVER_assert(x > -9223372036854775808.0 && x < 9223372036854775808.0, "float -> int64_t conversion is in range (no undefined behaviour)"); return (int64_t)x; }
#else
static inline int64_t pgmv_f2i_int64_t(double x) { if (x > -9223372036854775808.0 && x < 9223372036854775808.0) return (int64_t)x; return pgmv_nondet_int64_t(); }
#endif
#else
static inline size_t pgmv_f2i_size_t(double x) { return (size_t)x; }
static inline int64_t pgmv_f2i_int64_t(double x) { return (int64_t)x; }
#endif

/* ---- std::vector<T>: {data,size,cap}.  Element access is array access on `data` (bounds are CBMC
 * obligations against the is_fresh size cap*sizeof(T)).  Growth keeps the contents and never fails:
 * reallocation is abstracted by a symbolic capacity (assumption "allocation never fails").  [A] */
/* Local (default-constructed) vectors: with -DPGMV_LOCAL_VEC_CAP the buffer of a new vector has the ghost capacity g_lcap (arbitrary, symbolic), so a later
   resize / emplace_back never reallocates: the pointer stays put and the contents are kept [A: equivalent to std::vector as long as no iterator is held across
   a growing call]; `__CPROVER_assume(n <= cap)` then only selects a large enough g_lcap. */
#ifdef PGMV_LOCAL_VEC_CAP
extern size_t g_lcap;
#define PGMV_NEW_CAP(n) ((n) > g_lcap ? (n) : g_lcap)
#else
#define PGMV_NEW_CAP(n) ((n) ? (n) : 1)
#endif
#define PGMV_DEF_VEC(T) \
  typedef struct { T *data; size_t size; size_t cap; } vec_##T; \
  static inline void vec_##T##_clear(vec_##T *v) { v->size = 0; } \
  static inline void vec_##T##_push_back(vec_##T *v, T x) { __CPROVER_assume(v->size < v->cap); v->data[v->size] = x; v->size = v->size + 1; } \
  static inline void vec_##T##_emplace_back(vec_##T *v, T x) { __CPROVER_assume(v->size < v->cap); v->data[v->size] = x; v->size = v->size + 1; } \
  static inline void vec_##T##_resize(vec_##T *v, size_t n) { __CPROVER_assume(n <= v->cap); v->size = n; } \
  static inline void vec_##T##_reserve(vec_##T *v, size_t n) { (void)v; (void)n; } \
  /* resize of a LOCAL vector that may grow: a larger buffer is a new allocation whose contents are unspecified (over-approximates the preserved prefix) */ \
  static inline void vec_##T##_resize_any(vec_##T *v, size_t n) { if (n > v->cap) { T *pgmv_nd = (T *)malloc((n + 1) * sizeof(T)); __CPROVER_assume(pgmv_nd != 0); v->data = pgmv_nd; v->cap = n + 1; } v->size = n; } \
  /* reserve on an EMPTY local vector: a buffer of at least n elements */ \
  static inline void vec_##T##_reserve_any(vec_##T *v, size_t n) { __CPROVER_assert(v->size == 0, "pgmv: reserve_any is modelled for empty vectors only"); if (n > v->cap) { T *pgmv_nd = (T *)malloc((n + 1) * sizeof(T)); __CPROVER_assume(pgmv_nd != 0); v->data = pgmv_nd; v->cap = n + 1; } } \
  static inline void vec_##T##_shrink_to_fit(vec_##T *v) { (void)v; } \
  static inline void vec_##T##_emplace_back_default(vec_##T *v) { T pgmv_zero = {0}; __CPROVER_assume(v->size < v->cap); v->data[v->size] = pgmv_zero; v->size = v->size + 1; } \
  static inline vec_##T vec_##T##_new(size_t n) { vec_##T v; v.data = (T *)calloc(PGMV_NEW_CAP(n) + 1, sizeof(T));   /* one spare element beyond cap (harmless over-allocation) */ __CPROVER_assume(v.data != 0); v.size = n; v.cap = PGMV_NEW_CAP(n); return v; }

#endif
