"""cx2c.scan -- structural location of classes, member functions, fields and macros in a C++ header.

Location is structural (comment/string/bracket aware), never by line number, so that semantic
edits inside a body still extract.  Anything that cannot be located raises ExtractionBreak, which the
driver reports as UNDECIDED (exit 2), never as a violation.
"""
import re


class ExtractionBreak(Exception):
    pass


def strip_comments(src):
    """Replace comments by blanks (newlines kept) so offsets and line numbers are preserved."""
    out = []
    i = 0
    n = len(src)
    while i < n:
        c = src[i]
        if src.startswith('//', i):
            j = src.find('\n', i)
            j = n if j < 0 else j
            out.append(' ' * (j - i))
            i = j
        elif src.startswith('/*', i):
            j = src.find('*/', i)
            j = n if j < 0 else j + 2
            out.append(re.sub(r'[^\n]', ' ', src[i:j]))
            i = j
        elif c == '"':
            j = i + 1
            while j < n and src[j] != '"':
                j += 2 if src[j] == '\\' else 1
            out.append(src[i:j + 1])
            i = j + 1
        elif c == "'" and not (i > 0 and (src[i - 1].isalnum())):
            j = i + 1
            while j < n and src[j] != "'":
                j += 2 if src[j] == '\\' else 1
            out.append(src[i:j + 1])
            i = j + 1
        else:
            out.append(c)
            i += 1
    return ''.join(out)


def strip_verif_blocks(text):
    """The code under verification is the guard-off code: blank out `#ifdef PGM_INDEX_VERIF ... #endif` blocks
    (nested #if/#endif balanced), keeping the #else branch of the outermost block, and newlines."""
    lines = text.split('\n')
    out = []
    depth = 0          # depth inside a PGM_INDEX_VERIF block
    in_else = False
    for ln in lines:
        st = ln.strip()
        if depth == 0:
            if re.match(r'#\s*ifdef\s+PGM_INDEX_VERIF\b', st):
                depth = 1
                in_else = False
                out.append('')
                continue
            out.append(ln)
            continue
        if re.match(r'#\s*if', st):
            depth += 1
            out.append(ln if (in_else and depth > 1) else '')
            continue
        if re.match(r'#\s*endif', st):
            depth -= 1
            out.append(ln if (in_else and depth >= 1) else '')
            continue
        if depth == 1 and re.match(r'#\s*else', st):
            in_else = True
            out.append('')
            continue
        out.append(ln if in_else else '')
    return '\n'.join(out)


def match_close(s, i, open_='{', close='}'):
    assert s[i] == open_, (s[i - 10:i + 10], open_)
    d = 0
    n = len(s)
    j = i
    while j < n:
        c = s[j]
        if c == '"':
            j += 1
            while s[j] != '"':
                j += 2 if s[j] == '\\' else 1
        elif c == open_:
            d += 1
        elif c == close:
            d -= 1
            if d == 0:
                return j
        j += 1
    raise ExtractionBreak('unbalanced %s at offset %d' % (open_, i))


def line_of(src, off):
    return src.count('\n', 0, off) + 1


class Source:
    def __init__(self, path):
        self.path = path
        self.raw = open(path).read()
        self.text = strip_verif_blocks(strip_comments(self.raw))

    # ---------------------------------------------------------------- classes
    def find_class(self, name, ordinal=0):
        """Return (body_start, body_end) offsets of the brace-enclosed body of class/struct `name`.
        Matches in-class definitions `class Name {`, `struct Name : base {` and out-of-line nested
        definitions `struct Outer<...>::Name {`."""
        pat = re.compile(r'\b(class|struct)\s+((?:\w+\s*(?:<[^{};]*?>)?\s*::\s*)*)' + re.escape(name) + r'\b\s*(?:final\s*)?(:[^{;]*)?\{')
        hits = []
        for m in pat.finditer(self.text):
            b0 = m.end() - 1
            b1 = match_close(self.text, b0)
            hits.append((b0, b1))
        if len(hits) <= ordinal:
            raise ExtractionBreak('class %s (#%d) not found in %s' % (name, ordinal, self.path))
        return hits[ordinal]

    def depth1_regions(self, b0, b1):
        """Yield (start,end) spans of text at brace depth 1 inside [b0,b1] (i.e. class-member level),
        with nested brace blocks skipped."""
        t = self.text
        i = b0 + 1
        start = i
        while i < b1:
            c = t[i]
            if c == '{':
                j = match_close(t, i)
                yield (start, i, j)
                i = j + 1
                start = i
            else:
                i += 1
        yield (start, b1, None)

    # ---------------------------------------------------------------- functions
    def find_function(self, name, ordinal=0, scope=None):
        """Find the `ordinal`-th *definition* of function `name` within scope (b0,b1) at brace depth 1
        of that scope (or at any depth-0/namespace level when scope is None).
        Returns dict(header, params, init, body, l0, l1, is_const, body_off)."""
        t = self.text
        if name.startswith('operator'):
            op = name[len('operator'):].strip()
            name_rx = r'operator\s*' + re.escape(op).replace(r'\(\)', r'\(\s*\)')
        else:
            name_rx = r'(?<![\w~:.>])' + re.escape(name)
        pat = re.compile(name_rx + r'\s*\(')
        lo, hi = (0, len(t)) if scope is None else (scope[0] + 1, scope[1])
        hits = []
        for m in pat.finditer(t, lo, hi):
            if scope is not None and self._depth(scope[0] + 1, m.start()) != 0:
                continue
            if scope is None and self._depth_ns(m.start()) != 0:
                continue
            pre = t[lo:m.start()].rstrip()
            if pre.endswith(',') or (pre.endswith(':') and not pre.endswith('::') and not re.search(r'(public|private|protected)\s*:$', pre)):
                continue      # a delegating / base constructor call inside a constructor initialiser list, not a definition
            p0 = m.end() - 1
            p1 = match_close(t, p0, '(', ')')
            q = p1 + 1
            mq = re.compile(r'\s*(const\b)?\s*(noexcept\b)?\s*(->\s*[\w:<>,\s\*&]+?)?\s*').match(t, q, hi)
            is_const = bool(mq.group(1))
            q = mq.end()
            init = ''
            if t[q:q + 1] == ':' and t[q:q + 2] != '::':
                # constructor initialiser list: name [<..>] ( .. ) | { .. }  separated by commas
                i0 = q
                q += 1
                ok = True
                while True:
                    mi = re.compile(r'\s*[\w:]+\s*(?:<[^;{}()]*>)?\s*').match(t, q, hi)
                    if not mi or mi.end() >= hi or t[mi.end()] not in '({':
                        ok = False
                        break
                    q = mi.end()
                    q = match_close(t, q, t[q], ')' if t[q] == '(' else '}') + 1
                    mc = re.compile(r'\s*,').match(t, q, hi)
                    if mc:
                        q = mc.end()
                        continue
                    break
                if not ok:
                    continue
                init = t[i0:q]
            mb = re.compile(r'\s*\{').match(t, q, hi)
            if not mb:
                continue
            b0 = mb.end() - 1
            b1 = match_close(t, b0)
            # header: text back to the previous ';', '}', '{' or access specifier
            h = m.start()
            k = h
            while k > lo and t[k - 1] not in ';{}':
                k -= 1
            header = t[k:h]
            header = re.sub(r'^\s*(public|private|protected)\s*:', '', header.strip())
            hits.append(dict(header=header.strip(), params=t[p0 + 1:p1], init=init.strip(),
                             body=t[b0 + 1:b1], l0=line_of(t, m.start()), l1=line_of(t, b1),
                             is_const=is_const, body_off=b0 + 1, name=name))
        if len(hits) <= ordinal:
            raise ExtractionBreak('function %s (#%d) not found in %s' % (name, ordinal, self.path))
        return hits[ordinal]

    def _depth(self, start, pos):
        d = 0
        t = self.text
        for ch in t[start:pos]:
            if ch == '{':
                d += 1
            elif ch == '}':
                d -= 1
        return d

    def _depth_ns(self, pos):
        """brace depth ignoring namespace braces"""
        t = self.text
        d = 0
        stack = []
        for m in re.finditer(r'[{}]', t[:pos]):
            if m.group() == '{':
                pre = t[max(0, m.start() - 80):m.start()]
                is_ns = bool(re.search(r'namespace\s*[\w:]*\s*$', pre))
                stack.append(is_ns)
                if not is_ns:
                    d += 1
            else:
                if stack:
                    if not stack.pop():
                        d -= 1
        return d

    # ---------------------------------------------------------------- fields
    def class_fields(self, scope):
        """Parse data-member declarations at depth 1 of the class body: returns list of
        (type_text, name, array_suffix, is_static, is_mutable, init_text)."""
        t = self.text
        fields = []
        for (s, e, _close) in self.depth1_regions(*scope):
            chunk = t[s:e]
            # split on ';'
            for stmt in chunk.split(';'):
                st = stmt.strip()
                st = re.sub(r'^(?:(?:public|private|protected)\s*:\s*)+', '', st).strip()
                if not st or '(' in st.split('=')[0]:
                    continue
                if re.match(r'(using|friend|typedef|template|static_assert|class|struct|enum|namespace|return)\b', st) or re.search(r'\boperator\b', st):
                    continue
                m = re.match(r'^((?:(?:static|constexpr|const|mutable|inline|volatile)\s+)*)([\w:<>,\s\*&]+?)\s*([\*&]?)\s*(\w+)\s*((?:\[[^\]]*\])*)\s*(?:=\s*(.*)|\{(.*)\})?$', st, re.S)
                if not m:
                    continue
                quals, ty, ptr, nm, arr, init1, init2 = m.groups()
                if ty.strip() in ('public', 'private', 'protected', ''):
                    continue
                fields.append(dict(type=(ty.strip() + (' ' + ptr if ptr else '')).strip(), name=nm, array=arr,
                                   static='static' in quals, mutable='mutable' in quals, const='const' in quals.split(),
                                   init=(init1 if init1 is not None else init2)))
        return fields

    # ---------------------------------------------------------------- macros
    def find_macro(self, name):
        m = re.search(r'^[ \t]*#[ \t]*define[ \t]+' + re.escape(name) + r'\b(.*(?:\\\n.*)*)$', self.text, re.M)
        if not m:
            raise ExtractionBreak('macro %s not found in %s' % (name, self.path))
        return '#define ' + name + m.group(1)
