"""Family `mapped`: MappedPGMIndex query side (include/pgm/pgm_index_variants.hpp), C11 / C16 / C17."""
from unit import Family, ClassDesc, FuncDesc
from emit import FuncInfo

HPP = 'include/pgm/pgm_index_variants.hpp'
KEYS = 'Mapped_begin(self)'

FAMILY = Family(
    'mapped',
    typemap={'K': 'K', 'ApproxPos': 'ApproxPos'},
    classes=[ClassDesc('Mapped', HPP, 'MappedPGMIndex', base_struct='PGMBase', field_types={'data': 'Ptr<K>'},
                       methods={'begin': 'Mapped_begin', 'end': 'Mapped_end', 'size': 'Mapped_size', 'search': 'Mapped_search',
                                'lower_bound': 'Mapped_lower_bound', 'upper_bound': 'Mapped_upper_bound', 'count': 'Mapped_count',
                                'contains': 'Mapped_contains'})],
    extra_structs={'ApproxPos': {'pos': 'size_t', 'lo': 'size_t', 'hi': 'size_t'}, 'PGMBase': {'n': 'size_t', 'first_key': 'K'}},
    typenames={'K'},
)
FUNCS = {}


def F(*a, **kw):
    fd = FuncDesc(*a, **kw)
    FUNCS[fd.key] = fd
    return fd


F('Mapped_begin', HPP, 'begin', 'K *Mapped_begin(const Mapped *self)', cls='MappedPGMIndex', self_cls='Mapped', ret='It<K>', ret_base=KEYS, as_base=True)
F('Mapped_size', HPP, 'size', 'size_t Mapped_size(const Mapped *self)', cls='MappedPGMIndex', self_cls='Mapped', ret='size_t')
F('Mapped_end', HPP, 'end', 'size_t Mapped_end(const Mapped *self)', cls='MappedPGMIndex', self_cls='Mapped', ret='It<K>', ret_base=KEYS)
F('Mapped_lower_bound', HPP, 'lower_bound', 'size_t Mapped_lower_bound(const Mapped *self, K key)', cls='MappedPGMIndex', self_cls='Mapped', ret='It<K>', ret_base=KEYS,
  params={'key': 'K'}, must_fire=('std_lower_bound',))
F('Mapped_upper_bound', HPP, 'upper_bound', 'size_t Mapped_upper_bound(const Mapped *self, K key)', cls='MappedPGMIndex', self_cls='Mapped', ret='It<K>', ret_base=KEYS,
  params={'key': 'K'}, must_fire=('std_upper_bound',))
F('Mapped_count', HPP, 'count', 'size_t Mapped_count(const Mapped *self, K key)', cls='MappedPGMIndex', self_cls='Mapped', ret='size_t', params={'key': 'K'},
  must_fire=('std_distance',))
F('Mapped_contains', HPP, 'contains', '_Bool Mapped_contains(const Mapped *self, K key)', cls='MappedPGMIndex', self_cls='Mapped', ret='bool', params={'key': 'K'},
  must_fire=('std_binary_search',))
FUNCS['Mapped_search'] = FuncDesc('Mapped_search', HPP, 'search', 'ApproxPos Mapped_search(const Mapped *self, K key)', ret='ApproxPos')

PRELUDE = 'PGMV_DEF_MINMAX(K)\ntypedef struct { size_t pos; size_t lo; size_t hi; } ApproxPos;\n'
LAYOUT = ['struct:Mapped']
MACROS = []
