"""Family `ef`: EliasFanoPGMIndex::search and SegmentData (C10) + BucketingPGMIndex search/segment_for_key (C09)."""
from unit import Family, ClassDesc, FuncDesc
from emit import FuncInfo

HPP = 'include/pgm/pgm_index_variants.hpp'
PGM = 'include/pgm/pgm_index.hpp'

FAMILY = Family(
    'ef',
    typemap={'K': 'K', 'Floating': 'Floating', 'ApproxPos': 'ApproxPos', 'sdsl::sd_vector<>': 'SdVector', 'Segment': 'Segment',
             'std::vector<SegmentData>': 'Vec<SegmentData>', 'sdsl::int_vector<TopLevelBitSize>': 'IntVector'},
    classes=[
        ClassDesc('SegmentData', HPP, 'SegmentData'),
        ClassDesc('EF', HPP, 'EliasFanoPGMIndex', field_types={'ef': 'SdVector'}, methods={'pred': 'EF_pred', 'search': 'EF_search'}),
        ClassDesc('Segment', PGM, 'Segment', packed=True),
        ClassDesc('Bucketing', HPP, 'BucketingPGMIndex', field_types={'top_level': 'IntVector'},
                  consts={'pow_two_top_level': ('PGMV_POW_TWO_TOP_LEVEL', 'bool'), 'TopLevelSize': ('TopLevelSize', 'size_t'), 'TopLevelBitSize': ('TopLevelBitSize', 'uint8_t')},
                  methods={'segment_for_key': 'Bucketing_segment_for_key', 'search': 'Bucketing_search'}),
    ],
    extra_structs={'ApproxPos': {'pos': 'size_t', 'lo': 'size_t', 'hi': 'size_t'}, 'SdVector': {'n': 'size_t'}, 'IntVector': {'n': 'size_t'}},
    callops={'SegmentData': FuncInfo('SegmentData_call', 'size_t'), 'Segment': FuncInfo('Segment_call', 'size_t')},
    conv={'Segment': 'key'},
    funcs={'PGM_SUB_EPS': FuncInfo('PGM_SUB_EPS', 'size_t'), 'PGM_ADD_EPS': FuncInfo('PGM_ADD_EPS', 'size_t'), 'BIT_WIDTH': FuncInfo('BIT_WIDTH', 'int'),
           'CEIL_INT_DIV': FuncInfo('CEIL_INT_DIV', 'K'), 'sdsl::int_vector': FuncInfo('IntVector_make', 'IntVector'),
           '__builtin_mul_overflow': FuncInfo('__builtin_mul_overflow', 'bool', template='__builtin_mul_overflow(%a0, %a1, %p2)')},
    struct_methods={('IntVector', 'operator[]'): FuncInfo('IntVector_get', 'uint64_t'), ('IntVector', 'operator[]='): FuncInfo('IntVector_set', 'void')},
    typenames={'K', 'Floating', 'Segment', 'SegmentData', 'ApproxPos'},
)
FUNCS = {}
CONSTS = {'Epsilon': ('Epsilon', 'size_t'), 'TopLevelSize': ('TopLevelSize', 'size_t'), 'CHAR_BIT': ('CHAR_BIT', 'int')}


def F(*a, **kw):
    c = dict(CONSTS)
    c.update(kw.get('consts', {}))
    kw['consts'] = c
    fd = FuncDesc(*a, **kw)
    FUNCS[fd.key] = fd
    return fd


F('EF_search', HPP, 'search', 'ApproxPos EF_search(const EF *self, K key)', cls='EliasFanoPGMIndex', self_cls='EF', ret='ApproxPos', params={'key': 'K'},
  must_fire=('structured_binding', 'call_operator', 'return_brace', 'std_minmax'))
F('EF_pred', HPP, 'pred', 'pair_size_t_uint64_t EF_pred(const EF *self, uint64_t i)', cls='EliasFanoPGMIndex', self_cls='EF', ret='Pair<size_t,uint64_t>', params={'i': 'uint64_t'})
F('SegmentData_call', HPP, 'operator()', 'size_t SegmentData_call(const SegmentData *self, K origin, K k)', cls='SegmentData', ret='size_t',
  params={'origin': 'K', 'k': 'K'}, must_fire=('float_to_int',))
F('Bucketing_search', HPP, 'search', 'ApproxPos Bucketing_search(const Bucketing *self, K key)', cls='BucketingPGMIndex', self_cls='Bucketing', ret='ApproxPos',
  params={'key': 'K'}, must_fire=('builtin_expect', 'call_operator', 'return_brace'))
F('Bucketing_segment_for_key', HPP, 'segment_for_key', 'size_t Bucketing_segment_for_key(const Bucketing *self, K key)', cls='BucketingPGMIndex', self_cls='Bucketing',
  ret='It<Segment>', ret_base='self->segments.data', params={'key': 'K'}, must_fire=('if_constexpr', 'std_upper_bound', 'std_prev'))
F('Bucketing_build_top_level', HPP, 'build_top_level', 'void Bucketing_build_top_level(Bucketing *self)', cls='BucketingPGMIndex', self_cls='Bucketing', ret='void',
  must_fire=('if_constexpr', 'index_assign_operator', 'throw'))
FUNCS['IntVector_make'] = FuncDesc('IntVector_make', HPP, 'int_vector', 'IntVector IntVector_make(size_t size, uint64_t value, uint8_t width)', ret='IntVector')
FUNCS['IntVector_set'] = FuncDesc('IntVector_set', HPP, 'operator[]', 'void IntVector_set(IntVector *v, size_t idx, uint64_t value)', ret='void')
FUNCS['Segment_call'] = FuncDesc('Segment_call', PGM, 'operator()', 'size_t Segment_call(const Segment *self, K k)', cls='Segment', ret='size_t')

PRELUDE = '''PGMV_DEF_MINMAX(K)
typedef struct { size_t pos; size_t lo; size_t hi; } ApproxPos;
typedef struct { size_t first; uint64_t second; } pair_size_t_uint64_t;
typedef struct { size_t n; } SdVector;     /* sdsl::sd_vector: only reached through the contract of pred() */
typedef struct { size_t n; } IntVector;    /* sdsl::int_vector: cells read through IntVector_get [A] */
#define BIT_WIDTH(x) ((x) == 0 ? 0 : 64 - __builtin_clzll(x))
'''
LAYOUT = ['struct:SegmentData', 'vec:SegmentData', 'struct:EF', 'struct:Segment', 'vec:Segment', 'struct:Bucketing']
MACROS = [(PGM, 'PGM_SUB_EPS'), (PGM, 'PGM_ADD_EPS')]
