// Bounded native link for C05 / C06 / C15: the REAL DynamicPGMIndex against std::map on systematically varied histories,
// with the LSM invariants read through the guarded friend accessor after every operation.
// usage: dyn_link <points|traversal|invariants|all> <quick|thorough>
#include <map>
#include "common.hpp"
#include "pgm/pgm_index_dynamic.hpp"

namespace pgm::verif {
struct Access {
    template<class D> static auto &levels(const D &d) { return d.levels; }
    template<class D> static auto &pgms(const D &d) { return d.pgms; }
    template<class D> static size_t used(const D &d) { return d.used_levels; }
    template<class D> static size_t minl(const D &d) { return d.min_level; }
    template<class D> static size_t minidx(const D &d) { return d.min_index_level; }
    template<class D> static size_t bufmax(const D &d) { return d.buffer_max_size; }
    template<class D> static size_t base(const D &d) { return d.base; }
    template<class D> static size_t max_size(const D &d, uint8_t l) { return d.max_size(l); }
    template<class P> static size_t pgm_n(const P &p) { return p.n; }
    template<class P> static size_t pgm_segments(const P &p) { return p.segments.size(); }
};
}
using A = pgm::verif::Access;
static vl::Report R;

using K = uint32_t;
using V = uint32_t;
using PGM = pgm::PGMIndex<K, 4>;
using Dyn = pgm::DynamicPGMIndex<K, V, PGM>;

static std::string hist(const std::vector<std::pair<int, K>> &ops, size_t upto) {
    std::string s = "[";
    size_t from = upto > 30 ? upto - 30 : 0;
    for (size_t i = from; i <= upto && i < ops.size(); ++i) s += std::string(i > from ? "," : "") + "\"" + (ops[i].first == 0 ? "ins " : "del ") + std::to_string(ops[i].second) + "\"";
    return s + "]";
}

static bool check_invariants(const Dyn &d, std::string &why) {
    auto &lv = A::levels(d);
    size_t minl = A::minl(d), used = A::used(d);
    for (size_t j = 0; j < lv.size(); ++j) {
        size_t level = j + minl;
        auto &l = lv[j];
        for (size_t i = 1; i < l.size(); ++i)
            if (!(l[i - 1].first < l[i].first)) { why = "level " + std::to_string(level) + " is not strictly sorted"; return false; }
        if (level == minl && l.size() > A::bufmax(d)) { why = "buffer holds more than buffer_max_size entries"; return false; }
        if (level > minl && level < 64 / 7 && l.size() > A::max_size(d, (uint8_t) level)) { why = "level " + std::to_string(level) + " holds more than base^level entries"; return false; }
        if (level >= used && used >= minl && !l.empty()) { why = "level " + std::to_string(level) + " beyond used_levels holds data"; return false; }
        if (level >= A::minidx(d) && level - A::minidx(d) < A::pgms(d).size()) {
            auto &p = A::pgms(d)[level - A::minidx(d)];
            if (l.empty() && (A::pgm_n(p) != 0 || A::pgm_segments(p) != 0)) { why = "emptied level " + std::to_string(level) + " still owns a PGM-index (n=" + std::to_string(A::pgm_n(p)) + ")"; return false; }
            if (!l.empty() && level < used && A::pgm_n(p) != l.size()) { why = "index of level " + std::to_string(level) + " was built on " + std::to_string(A::pgm_n(p)) + " keys but the level holds " + std::to_string(l.size()); return false; }
            if (!l.empty() && level < used) {
                // the index answers for the level's own keys
                for (size_t i = 0; i < l.size(); i += std::max<size_t>(1, l.size() / 16)) {
                    auto r = p.search(l[i].first);
                    if (!(r.lo <= i && i < r.hi)) { why = "index of level " + std::to_string(level) + " is stale: key at position " + std::to_string(i) + " not in its range"; return false; }
                }
            }
        }
    }
    return true;
}

static void run_history(uint8_t base, uint8_t buffer_level, uint8_t index_level, const std::vector<std::pair<K, V>> &bulk, const std::vector<std::pair<int, K>> &ops,
                        bool points, bool trav, bool inv, K universe, const std::string &cfg) {
    std::map<K, V> ref;
    for (auto &kv : bulk) ref.emplace(kv.first, kv.second);
    Dyn d(bulk.begin(), bulk.end(), base, buffer_level, index_level);
    V next = 1000;
    auto fail = [&](const std::string &what, size_t i) {
        std::string key = cfg + "|" + what.substr(0, 40);
        if (R.seen.insert(key).second)
            R.violation(cfg + ": " + what + " after operation #" + std::to_string(i), "{\"config\": \"" + cfg + "\", \"bulk_n\": " + std::to_string(bulk.size()) + ", \"last_operations\": " + hist(ops, i) + "}");
    };
    for (size_t i = 0; i < ops.size(); ++i) {
        if (ops[i].first == 0) { d.insert_or_assign(ops[i].second, ++next); ref[ops[i].second] = next; }
        else { d.erase(ops[i].second); ref.erase(ops[i].second); }
        ++R.cases;
        bool deep = (i % 7 == 0) || i + 1 == ops.size();
        if (inv) { std::string why; if (!check_invariants(d, why)) fail("C15 " + why, i); }
        if (points && deep)
            for (K k = 0; k <= universe; ++k) {
                auto it = d.find(k);
                auto rit = ref.find(k);
                if ((it == d.end()) != (rit == ref.end()) || (it != d.end() && it->second != rit->second)) { fail("C05 find(" + std::to_string(k) + ") disagrees with std::map", i); break; }
                if (d.count(k) != ref.count(k)) { fail("C05 count disagrees with std::map", i); break; }
                auto lb = d.lower_bound(k);
                auto rlb = ref.lower_bound(k);
                if ((lb == d.end()) != (rlb == ref.end()) || (lb != d.end() && (lb->first != rlb->first || lb->second != rlb->second))) { fail("C05 lower_bound(" + std::to_string(k) + ") disagrees with std::map", i); break; }
            }
        if (trav && deep) {
            if (d.size() != ref.size()) fail("C06 size() disagrees with std::map", i);
            if (d.empty() != ref.empty()) fail("C06 empty() disagrees with std::map", i);
            auto rit = ref.begin();
            size_t guard = 0;
            bool ok = true;
            for (auto it = d.begin(); it != d.end() && guard <= ref.size() + 2; ++it, ++guard) {
                if (rit == ref.end() || it->first != rit->first || it->second != rit->second) { ok = false; break; }
                ++rit;
            }
            if (!ok || rit != ref.end()) fail("C06 traversal from begin() disagrees with std::map", i);
            K start = K((i * 7919u) % (universe + 1));
            auto lb = d.lower_bound(start);
            auto rl = ref.lower_bound(start);
            guard = 0;
            ok = true;
            for (auto it = lb; it != d.end() && guard <= ref.size() + 2; ++it, ++guard) { if (rl == ref.end() || it->first != rl->first) { ok = false; break; } ++rl; }
            if (!ok || rl != ref.end()) fail("C06 traversal from lower_bound disagrees with std::map", i);
            K lo = K((i * 31u) % (universe + 1)), hi = K(std::min<uint64_t>(universe, lo + (i * 13u) % 40));
            auto got = d.range(lo, hi);
            std::vector<std::pair<K, V>> want(ref.lower_bound(lo), ref.upper_bound(hi));
            if (got != want) fail("C06 range(" + std::to_string(lo) + "," + std::to_string(hi) + ") disagrees with std::map", i);
        }
    }
}

int main(int argc, char **argv) {
    std::string what = argc > 1 ? argv[1] : "all", tier = argc > 2 ? argv[2] : "quick";
    bool points = what == "all" || what == "points", trav = what == "all" || what == "traversal", inv = what == "all" || what == "invariants";
    uint64_t seed = vl::seed_from_env();
    std::mt19937_64 rng(seed);
    int rounds = tier == "thorough" ? 40 : 8;
    struct Cfg { uint8_t base, buf, idx; };
    std::vector<Cfg> cfgs = {{2, 1, 2}, {4, 1, 2}, {2, 2, 3}, {8, 1, 2}, {4, 1, 0}, {2, 1, 3}, {16, 1, 2}};
    for (auto c : cfgs)
        for (int r = 0; r < rounds; ++r) {
            K universe = K(r % 2 ? 60 : 200);
            std::vector<std::pair<K, V>> bulk;
            if (r % 3) for (K k = 0; k <= universe; ++k) if (rng() % 3 == 0) { bulk.push_back({k, k + 1}); if (rng() % 5 == 0) bulk.push_back({k, k + 7}); }
            std::vector<std::pair<int, K>> ops;
            size_t nops = tier == "thorough" ? 1500 : 500;
            for (size_t i = 0; i < nops; ++i) {
                K k = K(rng() % (universe + 1));
                int op = (rng() % 100) < (r % 4 == 0 ? 50 : 70) ? 0 : 1;
                if (i % 11 == 0 && !ops.empty()) k = ops[rng() % ops.size()].second;     // revisit keys: re-assign / erase again
                ops.push_back({op, k});
            }
            ++R.distinct;
            std::string cfg = "DynamicPGMIndex<uint32_t,uint32_t,PGMIndex<uint32_t,4>>(base=" + std::to_string(c.base) + ",buffer_level=" + std::to_string(c.buf) + ",index_level=" + std::to_string(c.idx) + ")";
            if (R.samples < 3) R.sample("{\"config\": \"" + cfg + "\", \"bulk_n\": " + std::to_string(bulk.size()) + ", \"first_operations\": " + hist(ops, 8) + "}");
            run_history(c.base, c.buf, c.idx, bulk, ops, points, trav, inv, universe, cfg);
        }
    return R.finish(false);
}
