// Bounded native link / reproducer for C13 and C14: the REAL MultidimensionalPGMIndex against brute force.
// usage: md_link <contains|range|all> <quick|thorough>      |  md_link --replay <kind> <dims> <grid> <seed-or-mask> ...
// Output protocol: one JSON object per line ({"violation":..}, {"sample":..}, {"summary":..}).
#include <algorithm>
#include <cstdint>
#include <cstdio>
#include <cstdlib>
#include <random>
#include <set>
#include <string>
#include <tuple>
#include <vector>
#include "pgm/pgm_index_variants.hpp"

static long cases = 0, distinct_cases = 0, violations = 0;
static int samples = 0;

template<typename T> using P2 = std::tuple<T, T>;
template<typename T> using P3 = std::tuple<T, T, T>;

template<typename T, size_t Eps>
static bool check2(const std::vector<P2<T>> &pts, T gmax, const char *tag, bool do_contains, bool do_range, bool report = true) {
    pgm::MultidimensionalPGMIndex<2, T, Eps> idx(pts.begin(), pts.end());
    std::multiset<P2<T>> ref(pts.begin(), pts.end());
    bool bad = false;
    auto dump = [&](std::string what) {
        if (!report) return;
        std::string in = "[";
        for (size_t i = 0; i < pts.size() && i < 40; ++i) in += (i ? "," : "") + std::string("[") + std::to_string(std::get<0>(pts[i])) + "," + std::to_string(std::get<1>(pts[i])) + "]";
        in += pts.size() > 40 ? ",\"...\"]" : "]";
        printf("{\"violation\": \"%s\", \"input\": {\"config\": \"%s\", \"n\": %zu, \"points\": %s}}\n", what.c_str(), tag, pts.size(), in.c_str());
        ++violations;
    };
    if (do_contains) {
        for (T x = 0; x <= gmax + 1 && !bad; ++x)
            for (T y = 0; y <= gmax + 1 && !bad; ++y) {
                ++cases;
                bool want = ref.count({x, y}) > 0;
                bool got = idx.contains({x, y});
                if (want != got) { dump("C14 contains((" + std::to_string(x) + "," + std::to_string(y) + ")) returned " + (got ? "true" : "false") + ", stored: " + (want ? "yes" : "no")); bad = true; }
            }
    }
    if (do_range) {
        std::vector<std::pair<P2<T>, P2<T>>> boxes;
        for (T a = 0; a <= gmax; a += (gmax > 8 ? gmax / 4 + 1 : 1))
            for (T b = 0; b <= gmax; b += (gmax > 8 ? gmax / 4 + 1 : 1))
                for (T c = a; c <= gmax; c += (gmax > 8 ? gmax / 3 + 1 : 1))
                    for (T d = b; d <= gmax; d += (gmax > 8 ? gmax / 3 + 1 : 1))
                        boxes.push_back({{a, b}, {c, d}});
        // thin slabs
        for (T a = 0; a <= gmax; ++a) { boxes.push_back({{a, 0}, {a, gmax}}); boxes.push_back({{0, a}, {gmax, a}}); }
        for (auto &bx : boxes) {
            if (bad) break;
            ++cases;
            std::multiset<P2<T>> want, got;
            for (auto &p : pts)
                if (std::get<0>(p) >= std::get<0>(bx.first) && std::get<0>(p) <= std::get<0>(bx.second) && std::get<1>(p) >= std::get<1>(bx.first) && std::get<1>(p) <= std::get<1>(bx.second)) want.insert(p);
            size_t guard = 0;
            for (auto it = idx.range(bx.first, bx.second); it != idx.end() && guard < pts.size() + 5; ++it, ++guard) got.insert(*it);
            if (want != got) {
                dump("C13 range([" + std::to_string(std::get<0>(bx.first)) + "," + std::to_string(std::get<1>(bx.first)) + "],[" + std::to_string(std::get<0>(bx.second)) + "," + std::to_string(std::get<1>(bx.second)) + "]) returned " + std::to_string(got.size()) + " points, expected " + std::to_string(want.size()));
                bad = true;
            }
        }
    }
    return !bad;
}

template<typename T>
static void run_grid(T g, bool dense_only, bool do_contains, bool do_range, uint64_t seed, int rounds) {
    std::mt19937_64 rng(seed);
    // (a) all subsets of a 3x3 grid placed at the origin (duplicates added by doubling every third point)
    if (!dense_only) {
        for (unsigned mask = 1; mask < 512; ++mask) {
            std::vector<P2<T>> pts;
            for (int i = 0; i < 9; ++i)
                if (mask >> i & 1) { pts.push_back({T(i % 3), T(i / 3)}); if (i % 3 == 0) pts.push_back({T(i % 3), T(i / 3)}); }
            ++distinct_cases;
            if (!check2<T, 4>(pts, 3, sizeof(T) == 8 ? "MultidimensionalPGMIndex<2,uint64_t,4> 3x3 subset" : "MultidimensionalPGMIndex<2,uint32_t,4> 3x3 subset", do_contains, do_range)) return;
            if (samples < 2) { printf("{\"sample\": {\"grid\": \"3x3 subset mask %u\", \"n\": %zu}}\n", mask, pts.size()); ++samples; }
        }
    }
    // (a2) a stored point duplicated many times (more than the search window) used as box corner, with larger codes present
    for (unsigned copies : {3u, 12u, 40u, 200u}) {
        std::vector<P2<T>> pts;
        for (T x = 0; x < 12; ++x) for (T y = 0; y < 12; ++y) pts.push_back({x, y});
        for (unsigned c = 0; c < copies; ++c) { pts.push_back({5, 6}); pts.push_back({2, 3}); }
        ++distinct_cases;
        if (!check2<T, 4>(pts, 11, sizeof(T) == 8 ? "MultidimensionalPGMIndex<2,uint64_t,4> duplicated corner" : "MultidimensionalPGMIndex<2,uint32_t,4> duplicated corner", do_contains, do_range)) return;
        // boxes whose corners are the duplicated points
        pgm::MultidimensionalPGMIndex<2, T, 4> idx(pts.begin(), pts.end());
        for (auto bx : {std::pair<P2<T>, P2<T>>{{2, 3}, {5, 6}}, std::pair<P2<T>, P2<T>>{{0, 0}, {5, 6}}, std::pair<P2<T>, P2<T>>{{5, 6}, {5, 6}}, std::pair<P2<T>, P2<T>>{{2, 3}, {11, 11}}}) {
            ++cases;
            size_t want = 0, got = 0;
            for (auto &p : pts) if (std::get<0>(p) >= std::get<0>(bx.first) && std::get<0>(p) <= std::get<0>(bx.second) && std::get<1>(p) >= std::get<1>(bx.first) && std::get<1>(p) <= std::get<1>(bx.second)) ++want;
            for (auto it = idx.range(bx.first, bx.second); it != idx.end() && got < pts.size() + 5; ++it) ++got;
            if (want != got) { printf("{\"violation\": \"C13 range with a %u-fold duplicated corner point returned %zu points, expected %zu\", \"input\": {\"config\": \"12x12 grid + duplicates of (5,6) and (2,3)\", \"copies\": %u}}\n", copies, got, want, copies); ++violations; return; }
        }
    }
    // (b) dense g x g grids (every cell, some duplicated): the Z-order skip is taken after 64 consecutive misses
    for (int r = 0; r < rounds; ++r) {
        std::vector<P2<T>> pts;
        for (T x = 0; x < g; ++x)
            for (T y = 0; y < g; ++y) {
                if (r > 0 && rng() % 8 == 0) continue;
                pts.push_back({x, y});
                if (r > 0 && rng() % 16 == 0) pts.push_back({x, y});
            }
        ++distinct_cases;
        if (!check2<T, 4>(pts, g - 1, sizeof(T) == 8 ? "MultidimensionalPGMIndex<2,uint64_t,4> dense grid" : "MultidimensionalPGMIndex<2,uint32_t,4> dense grid", do_contains && g <= 32, do_range)) return;
        if (samples < 4) { printf("{\"sample\": {\"grid\": \"dense %ux%u round %d\", \"n\": %zu}}\n", (unsigned) g, (unsigned) g, r, pts.size()); ++samples; }
    }
}


// (c) C14 over the whole coordinate width: for every bit position of every coordinate, a stored point and the absent point that differs
// from it in exactly that bit (both directions: bit cleared / bit set), alone and next to a few small points; plus random wide points
template<typename T>
static void run_bits(bool do_contains, uint64_t seed) {
    if (!do_contains) return;
    const char *tag = sizeof(T) == 8 ? "MultidimensionalPGMIndex<2,uint64_t,4> one-bit neighbours" : "MultidimensionalPGMIndex<2,uint32_t,4> one-bit neighbours";
    const int cbits = int(sizeof(T) * 8 / 2) - 1;     // coordinates accepted by the constructor: x < 2^cbits
    std::mt19937_64 rng(seed);
    auto check = [&](const std::vector<P2<T>> &pts, const std::vector<P2<T>> &queries) {
        pgm::MultidimensionalPGMIndex<2, T, 4> idx(pts.begin(), pts.end());
        std::set<P2<T>> ref(pts.begin(), pts.end());
        for (auto &q : queries) {
            ++cases;
            bool want = ref.count(q) > 0, got = idx.contains(q);
            if (want != got) {
                std::string in = "[";
                for (size_t i = 0; i < pts.size(); ++i) in += (i ? "," : "") + std::string("[") + std::to_string(std::get<0>(pts[i])) + "," + std::to_string(std::get<1>(pts[i])) + "]";
                in += "]";
                printf("{\"violation\": \"C14 contains((%llu,%llu)) returned %s, stored: %s\", \"input\": {\"config\": \"%s\", \"n\": %zu, \"points\": %s}}\n",
                       (unsigned long long) std::get<0>(q), (unsigned long long) std::get<1>(q), got ? "true" : "false", want ? "yes" : "no", tag, pts.size(), in.c_str());
                ++violations;
                return false;
            }
        }
        return true;
    };
    for (int b = 0; b < cbits; ++b)
        for (int dim = 0; dim < 2; ++dim)
            for (int variant = 0; variant < 3; ++variant) {
                T bit = T(1) << b;
                T bx = variant == 2 ? T(rng() & ((T(1) << cbits) - 1)) : T(variant * 5), by = variant == 2 ? T(rng() & ((T(1) << cbits) - 1)) : T(variant * 3);
                P2<T> with = dim == 0 ? P2<T>{T(bx | bit), by} : P2<T>{bx, T(by | bit)};
                P2<T> without = dim == 0 ? P2<T>{T(bx & ~bit), by} : P2<T>{bx, T(by & ~bit)};
                for (int stored_with = 0; stored_with < 2; ++stored_with) {
                    std::vector<P2<T>> pts{stored_with ? with : without};
                    if (variant == 1) { pts.push_back({1, 1}); pts.push_back({2, 7}); pts.push_back({T((T(1) << cbits) - 1), T((T(1) << cbits) - 1)}); }
                    ++distinct_cases;
                    if (!check(pts, {with, without, {0, 0}, {T((T(1) << cbits) - 1), 0}})) return;
                }
            }
}

int main(int argc, char **argv) {
    std::string what = argc > 1 ? argv[1] : "all";
    std::string tier = argc > 2 ? argv[2] : "quick";
    uint64_t seed = getenv("VERIF_SEED") ? strtoull(getenv("VERIF_SEED"), nullptr, 10) : 1;
    if (what == "--replay") { what = argc > 2 ? argv[2] : "all"; tier = "quick"; }
    bool c = what == "all" || what == "contains", r = what == "all" || what == "range";
    int rounds = tier == "thorough" ? 12 : 3;
    run_grid<uint64_t>(64, false, c, r, seed, rounds);
    run_grid<uint32_t>(64, false, c, r, seed + 1, rounds);
    run_bits<uint64_t>(c, seed + 7);
    run_bits<uint32_t>(c, seed + 8);
    if (tier == "thorough") { run_grid<uint64_t>(128, true, false, r, seed + 2, 3); }
    printf("{\"summary\": {\"cases\": %ld, \"distinct\": %ld, \"exhaustive\": false}}\n", cases, distinct_cases);
    return violations ? 1 : 0;
}
