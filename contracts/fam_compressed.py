"""Family `compressed`: CompressedPGMIndex::search and CompressedLevel accessors (C08)."""
from unit import Family, ClassDesc, FuncDesc
from emit import FuncInfo

HPP = 'include/pgm/pgm_index_variants.hpp'
PGM = 'include/pgm/pgm_index.hpp'

FAMILY = Family(
    'compressed',
    typemap={'K': 'K', 'Floating': 'Floating', 'ApproxPos': 'ApproxPos', 'sdsl::int_vector<>': 'IntVector', 'sdsl::sd_vector<>': 'SdVector',
             'sdsl::sd_vector<>::select_1_type': 'Select1', 'std::vector<CompressedLevel>': 'Vec<CompressedLevel>', 'CompressedLevel': 'CompressedLevel'},
    classes=[
        ClassDesc('CompressedLevel', HPP, 'CompressedLevel', field_types={'slopes_map': 'IntVector', 'compressed_intercepts': 'SdVector', 'sel1': 'Select1'},
                  methods={'get_slope': 'CompressedLevel_get_slope', 'get_intercept': 'CompressedLevel_get_intercept', 'size': 'CompressedLevel_size'}),
        ClassDesc('Compressed', HPP, 'CompressedPGMIndex', methods={'search': 'Compressed_search'}),
    ],
    extra_structs={'ApproxPos': {'pos': 'size_t', 'lo': 'size_t', 'hi': 'size_t'}, 'SdVector': {'n': 'size_t'}, 'IntVector': {'n': 'size_t'}, 'Select1': {'n': 'size_t'}},
    callops={'CompressedLevel': FuncInfo('CompressedLevel_call', 'size_t', params=['Ref<Vec<Floating>>', 'size_t', 'K']), 'Select1': FuncInfo('Select1_call', 'uint64_t')},
    funcs={'PGM_SUB_EPS': FuncInfo('PGM_SUB_EPS', 'size_t'), 'PGM_ADD_EPS': FuncInfo('PGM_ADD_EPS', 'size_t')},
    struct_methods={('IntVector', 'operator[]'): FuncInfo('IntVector_get', 'uint64_t')},
    typenames={'K', 'Floating', 'CompressedLevel', 'ApproxPos'},
)
FUNCS = {}
CONSTS = {'Epsilon': ('Epsilon', 'size_t'), 'EpsilonRecursive': ('EpsilonRecursive', 'size_t')}


def F(*a, **kw):
    c = dict(CONSTS)
    c.update(kw.get('consts', {}))
    kw['consts'] = c
    fd = FuncDesc(*a, **kw)
    FUNCS[fd.key] = fd
    return fd


F('Compressed_search', HPP, 'search', 'ApproxPos Compressed_search(const Compressed *self, K key)', cls='CompressedPGMIndex', self_cls='Compressed', ret='ApproxPos',
  params={'key': 'K'}, must_fire=('if_constexpr', 'range_for', 'reference_local', 'call_operator', 'return_brace', 'float_to_int'))
F('CompressedLevel_call', HPP, 'operator()', 'size_t CompressedLevel_call(const CompressedLevel *self, const vec_Floating *slopes, size_t i, K k)', cls='CompressedLevel',
  ret='size_t', params={'slopes': 'Ref<Vec<Floating>>', 'i': 'size_t', 'k': 'K'}, params_complete=True, must_fire=('float_to_int',))
F('CompressedLevel_get_slope', HPP, 'get_slope', 'Floating CompressedLevel_get_slope(const CompressedLevel *self, const vec_Floating *slopes, size_t i)', cls='CompressedLevel',
  ret='Floating', params={'slopes': 'Ref<Vec<Floating>>', 'i': 'size_t'}, params_complete=True)
F('CompressedLevel_get_intercept', HPP, 'get_intercept', 'int64_t CompressedLevel_get_intercept(const CompressedLevel *self, size_t i)', cls='CompressedLevel', ret='int64_t',
  params={'i': 'size_t'}, params_complete=True)
F('CompressedLevel_size', HPP, 'size', 'size_t CompressedLevel_size(const CompressedLevel *self)', cls='CompressedLevel', ret='size_t')

PRELUDE = '''PGMV_DEF_MINMAX(K)
typedef struct { size_t pos; size_t lo; size_t hi; } ApproxPos;
typedef struct { size_t n; } SdVector;
typedef struct { size_t n; } IntVector;
typedef struct { size_t n; } Select1;
'''
LAYOUT = ['vec:K', 'vec:Floating', 'struct:CompressedLevel', 'vec:CompressedLevel', 'struct:Compressed']
MACROS = [(PGM, 'PGM_SUB_EPS'), (PGM, 'PGM_ADD_EPS')]
